package main

// rules: how cases are generated and what makes one non-trivial / distinct (per property).
var rules = map[string]string{}

var commonAssumptions = []string{
	"the Go toolchain, runtime and (for C18) race detector are correct",
	"pgregory.net/rapid v1.3.0 generates and shrinks as documented",
	"the independent reference model (refmodel) encodes this author's reading of the RFCs; it is self-tested (decode(encode(v)) == v) and anchored to third-party byte vectors",
	"nothing is proved: counts below say how much was explored",
}

var assumptions = map[string][]string{}

func initRules() {
	for i := 1; i <= 18; i++ {
		id := "C" + string(rune('0'+i/10)) + string(rune('0'+i%10))
		if assumptions[id] == nil {
			assumptions[id] = commonAssumptions
		}
		if rules[id] == "" {
			rules[id] = "see DESIGN.md section 4 " + id
		}
	}
}
