package main

// rules: how cases are generated and what makes one non-trivial / distinct (per property).
var rules = map[string]string{
	"C01": "Cases: (entry point, byte string) pairs. Sweep: every entry point x total length x 70 first octets x 4 packet types x 13 length-field values x 5 fills (distinct by construction; the version-2 half is counted as non-trivial). Generated: hostile bytes (valid encodings with directed header/field mutations, truncation, splices, concatenations, forced headers, random, TWCC status-counter-wrap recipe, frames of 64-256 KiB), each given to rtcp.Unmarshal, to the decoder its header selects, to one other decoder and to one sub-decoder. Non-trivial: the input passes the entry point's first gate (>= 4 octets, version 2, own PT/FMT for typed decoders), i.e. reaches body parsing; distinct by FNV-1a of (entry point, bytes).",
	"C02": "Cases: model values of all 16 types drawn from the well-formed domain D (boundary-biased fields; lists at 0/1/max; text lengths mod 4; sub-tick TWCC deltas; compounds) and lists of 1..12 (thorough up to 40) such values. Non-trivial: at least one non-empty variable-length part or a field at a boundary value; lists need >= 2 members. Distinct by FNV-1a of the JSON form of the model value.",
	"C03": "Cases: model values in D as for C02. Non-trivial: at least one non-empty variable-length part or a field at a boundary value. Distinct by FNV-1a of the JSON form of the model value.",
	"C04": "Cases: (model value in D, variant) where the reference encoder produces an RFC-valid encoding of the value that pion's own encoder does not necessarily produce (TWCC chunkings incl. symbol 3 and over-long final run, unnormalised REMB pairs, APP padding words, non-zero reserved bits in FIR/XR/CCFB, BYE reason forms, canonical, frames >= 64 KiB) or a count-inflated SR/RR/SDES/BYE. Non-trivial: the encoding differs from pion's own Marshal output for the value, or it is a count-inflated variant. Distinct by FNV-1a of the JSON form of the case.",
	"C05": "Cases: model values in D plus deliberately unaligned variable-length parts (SR/RR extensions of any length, odd XR chunk counts, unknown XR bodies of any length). Non-trivial: a variable-length part whose natural size is not a multiple of 4, or a list at 0/1/max. Distinct by FNV-1a of the JSON form.",
	"C06": "Cases: sequences of 1..12 well-framed frames (reference encodings in strict and pion-readable form, pion's own output, mutated bodies, forced headers, raw frames) plus one optional fault (truncation inside a frame, 1..3 surplus octets, trailing over-long header, empty datagram) and a split point. Non-trivial: a fault is injected, or >= 2 frames of different (PT, FMT) with a rest-consuming decoder (SR/RR/SDES/APP/XR/CCFB/TWCC) followed by another frame. Distinct by FNV-1a of the JSON form.",
	"C07": "Cases: (a) every one of the 256 x 32 (PT, FMT) header cells with generated bodies (valid bodies on table rows, random bodies everywhere) - each cell is distinct and non-trivial by construction; (b) every ordered pair (decoder T, foreign kind U) with generated well-formed U packets from both encoders; (c) own Marshal output of generated D-values.",
	"C08": "Cases: (limit row, side, value) for ~40 limit rows (enumerated list of the statement + general-clause rows) x {below, at, above, far beyond}, the probe planted into a generated surrounding value; plus plain D-values. Non-trivial: the probed field is within +-1 of its limit or beyond it; distinct by (row, side) and by the hash of the value.",
	"C09": "Cases: byte strings with a high acceptance rate that are mostly not canonical: reference variant encodings (C04's generator), concatenations, frames extended by surplus words with the length fixed up, TWCC-targeted bytes, hostile mutations, frames >= 64 KiB. Non-trivial: accepted by rtcp.Unmarshal AND (not byte-identical to its re-encoding OR >= 2 packets). Distinct by FNV-1a of the bytes.",
	"C10": "Cases: model values in D of every type (lists at 0/1/max, compound, raw). Non-trivial: the reference SSRC list is empty or has >= 2 entries. Distinct by FNV-1a of the JSON form.",
	"C11": "Cases: all sequences of the 10 member kinds {SR, RR, SDES+CNAME, SDES-noCNAME, SDES-empty, BYE, FB, APP, XR, RAW} of length 0..L (quick 4, thorough 6), members drawn per sequence (CNAME at a drawn chunk/item position), two fault arms on every accepted sequence; plus generated sequences of length L+1..40. Every enumerated sequence is distinct and counted as non-trivial; long ones are distinct by hash.",
	"C12": "Cases: sequence-number lists built from clusters with gaps {0,1,2,3,15,16,17,18,32,33}, bases near 0 / 65535, reversed or shuffled; all 2- and 3-element lists near 0 and the wrap; (PacketID, bitmap) pairs (quick 66 x 2^16, thorough all 2^32); early-stop positions 0..17. Non-trivial list: contains a gap of 16 or 17, a duplicate or a descending step (incl. the wrap); enumerated pairs are distinct by construction.",
	"C13": "Cases: (A) TWCC-targeted byte strings (valid encodings, shifted status counts, random chunk words followed by exactly the delta octets they call for +-, replaced chunk words, status-counter-wrap recipe, declared length one word short, surplus octets); non-trivial: accepted and (>= 2 chunk kinds or a last chunk that overshoots/clips the status count). (B) status sequences x two independent chunkings; non-trivial: the chunkings differ and the sequence has both received and lost packets; exhaustive: all 3^n sequences (n <= 5 quick, 6 thorough) x all their chunkings.",
	"C14": "Cases: all 2^24 (exponent, mantissa) wire pairs; non-negative finite float32 bitrates in bit-pattern order (quick: stride 509 plus dense windows of +-64 ulps around every power of two, every 0x3FFFF*2^e and the saturation point; thorough: all 2^31-2^23); SSRC list lengths 0..260, 511, 512 on the encode side; on the wire side every count octet 0..255 against ~19 entry counts (equal, off by one, congruent modulo 256, largest frame); special values. Every enumerated value is distinct by construction.",
	"C15": "Cases: XR packets with 0..8 (thorough 40) blocks over the 7 defined kinds and unknown kinds (BT 0, 8..255) with boundary-biased fields and list lengths; all 8^2+8^3 ordered pairs and triples of kinds with drawn fields. Non-trivial: >= 2 blocks of different kinds with a variable-length block not in last position. Distinct by FNV-1a of the JSON form.",
	"C16": "Cases: the complete finite domain of each unit (chunk words, deltas, 24-bit loss, metric words, XR chunks: exhaustive in both tiers; header fields/words, NACK pairs, SLI words: strided by an odd multiplier (a bijection on the domain) plus bit-boundary sets in quick, exhaustive in thorough; FIR entries sampled). Every enumerated value is distinct by construction.",
	"C17": "Cases: packets returned by rtcp.Unmarshal over generated inputs (<= 6 KiB); constructed values of every type with planted extreme bitrates (1e21.., MaxFloat32, Inf, NaN) and out-of-range enum values; REMB decoded from every exponent x strided (thorough: every) mantissa; all 256 values of 7 enum types and all 2^16 Chunk/PacketBitmap/Header values. Non-trivial: accepted input / non-empty list, out-of-range enum, planted bitrate.",
	"C18": "Cases: (A) histories of 1..60 operations {Marshal, MarshalSize, DestinationSSRC, String, Header/Len, Validate/CNAME, Unmarshal direct/datagram} over a pool of built and decoded packets and input buffers (plain build); non-trivial: >= 3 distinct operations and >= 2 packets. (B) scripts for 4/16/32 goroutines (GOMAXPROCS 2/16) mixing own and shared packets and shared input buffers, run in the -race build (concurrently first, on cold package state; the first script of each process touches every packet kind with every operation from 8 goroutines) and compared with a sequential run; distinct by hash of the operation lists.",
}

var commonAssumptions = []string{
	"the Go toolchain, runtime and (for C18) race detector are correct",
	"pgregory.net/rapid v1.3.0 generates and shrinks as documented",
	"the independent reference model (refmodel) encodes this author's reading of the RFCs; it is self-tested (decode(encode(v)) == v) and anchored to third-party byte vectors",
	"cases attributed to a listed known finding (coverage.excluded_known) were re-judged under that finding's dialect, not skipped, unless the finding says the input class is excluded",
	"nothing is proved: counts say how much was explored",
}

var assumptions = map[string][]string{}

func initRules() {
	for i := 1; i <= 18; i++ {
		id := "C" + string(rune('0'+i/10)) + string(rune('0'+i%10))
		if assumptions[id] == nil {
			assumptions[id] = commonAssumptions
		}
		if rules[id] == "" {
			rules[id] = "see DESIGN.md section 4 " + id
		}
	}
}
