// vcheck is the driver: it rebuilds the check binary against /repo's current working tree,
// runs the known-finding witnesses, runs the search (sharded over processes), merges the
// statistics into /verif/evidence/<id>.json and reports VIOLATION / KNOWN-FINDING lines.
//
//	vcheck run    --prop C05 --tier quick|thorough
//	vcheck replay --prop C05 --file <replay.json>
//	vcheck selftest
//
// Exit codes: 0 property held on everything explored; 1 violation (VIOLATION line printed);
// 2 inconclusive (build failure, driver budget, worker death) - never a violation.
package main

import (
	"bytes"
	"context"
	"crypto/sha256"
	"encoding/binary"
	"encoding/hex"
	"encoding/json"
	"flag"
	"fmt"
	"os"
	"os/exec"
	"path/filepath"
	"regexp"
	"sort"
	"strconv"
	"strings"
	"sync"
	"time"
)

const root = "/verif"

type fuzzTarget struct {
	Name     string
	Quick    time.Duration // 0: not run in quick
	Thorough time.Duration
}

type propCfg struct {
	Test            string // go test function (regexp)
	ShardsQuick     int
	ShardsThorough  int
	Race            bool
	Fuzz            []fuzzTarget
	Rule            string
	Assumptions     []string
	TimeoutQuick    time.Duration
	TimeoutThorough time.Duration
}

var props = map[string]*propCfg{}

func init() {
	for i := 1; i <= 18; i++ {
		id := fmt.Sprintf("C%02d", i)
		props[id] = &propCfg{Test: "^Test" + id + "$", ShardsQuick: 4, ShardsThorough: 16, TimeoutQuick: 8 * time.Minute, TimeoutThorough: 40 * time.Minute}
	}
	props["C18"].Race = true
	props["C01"].Fuzz = []fuzzTarget{{Name: "FuzzC01Decode", Thorough: 180 * time.Second}}
	props["C04"].Fuzz = []fuzzTarget{{Name: "FuzzC04Frame", Thorough: 150 * time.Second}}
	props["C06"].Fuzz = []fuzzTarget{{Name: "FuzzC06Frame", Thorough: 150 * time.Second}}
	props["C09"].Fuzz = []fuzzTarget{{Name: "FuzzC09Reencode", Thorough: 180 * time.Second}}
	props["C13"].Fuzz = []fuzzTarget{{Name: "FuzzC13TWCC", Thorough: 120 * time.Second}}
	props["C17"].Fuzz = []fuzzTarget{{Name: "FuzzC17String", Thorough: 120 * time.Second}}
}

func fillRules() {
	initRules()
	for id, r := range rules {
		props[id].Rule = r
	}
	for id, a := range assumptions {
		props[id].Assumptions = a
	}
}

func goEnv() []string {
	env := os.Environ()
	env = append(env, "GOFLAGS=-mod=mod", "GOPROXY=off", "GOSUMDB=off", "GOTOOLCHAIN=local", "CGO_ENABLED=1")
	return env
}

func fatal2(format string, a ...interface{}) {
	fmt.Printf("INCONCLUSIVE "+format+"\n", a...)
	os.Exit(2)
}

func main() {
	if len(os.Args) < 2 {
		fmt.Println("usage: vcheck run|replay|selftest ...")
		os.Exit(2)
	}
	fillRules()
	switch os.Args[1] {
	case "run":
		fs := flag.NewFlagSet("run", flag.ExitOnError)
		prop := fs.String("prop", "", "property id")
		tier := fs.String("tier", "", "quick|thorough")
		_ = fs.Parse(os.Args[2:])
		if *tier == "" {
			*tier = os.Getenv("VERIF_TIER")
		}
		if *tier == "" {
			*tier = "quick"
		}
		os.Exit(run(*prop, *tier))
	case "replay":
		fs := flag.NewFlagSet("replay", flag.ExitOnError)
		prop := fs.String("prop", "", "property id")
		file := fs.String("file", "", "replay file")
		_ = fs.Parse(os.Args[2:])
		os.Exit(replay(*prop, *file))
	case "selftest":
		os.Exit(selftest())
	default:
		fmt.Println("unknown command", os.Args[1])
		os.Exit(2)
	}
}

func seed() int64 {
	if v := os.Getenv("VERIF_SEED"); v != "" {
		if n, err := strconv.ParseInt(v, 10, 64); err == nil {
			return n
		}
	}
	return 1
}

// knownFile is the committed known-findings file; a mutation campaign running from a source
// snapshot (tools/mutcampaign.py) points at the snapshot's copy.
func knownFile() string {
	if f := os.Getenv("VCHECK_KNOWN_FILE"); f != "" {
		return f
	}
	return filepath.Join(root, "known_findings.json")
}

// build compiles the checks package against /repo's working tree.
func build(dir string, race bool) (string, error) {
	// mutation campaigns (tools/mutcampaign.py) build the test binary once per mutant and hand it
	// to every property's run; the registered commands never set these variables
	if pre := os.Getenv("VCHECK_BIN"); pre != "" && !race {
		return pre, nil
	}
	if pre := os.Getenv("VCHECK_RACEBIN"); pre != "" && race {
		return pre, nil
	}
	out := filepath.Join(dir, "checks.test")
	args := []string{"test", "-c", "-tags", "verif", "-vet=off", "-o", out}
	if race {
		out = filepath.Join(dir, "checks.race.test")
		args = []string{"test", "-c", "-tags", "verif", "-vet=off", "-race", "-o", out}
	}
	if alt := os.Getenv("VCHECK_REPO"); alt != "" {
		// mutation testing on a scratch worktree: same sources, replace directive pointed elsewhere
		mod, err := os.ReadFile(filepath.Join(root, "go.mod"))
		if err != nil {
			return "", err
		}
		alt, _ = filepath.Abs(alt)
		modfile := filepath.Join(dir, "alt.mod")
		_ = os.WriteFile(modfile, []byte(strings.Replace(string(mod), "=> /repo", "=> "+alt, 1)), 0o644)
		sum, _ := os.ReadFile(filepath.Join(root, "go.sum"))
		_ = os.WriteFile(filepath.Join(dir, "alt.sum"), sum, 0o644)
		args = append(args, "-modfile", modfile)
	}
	args = append(args, "./checks")
	cmd := exec.Command("go", args...)
	cmd.Dir = root
	cmd.Env = goEnv()
	var buf bytes.Buffer
	cmd.Stdout, cmd.Stderr = &buf, &buf
	if err := cmd.Run(); err != nil {
		return "", fmt.Errorf("%v\n%s", err, buf.String())
	}
	return out, nil
}

type shardResult struct {
	shard    int
	code     int
	err      error
	log      string
	timedOut bool
}

func runBin(ctx context.Context, bin string, args []string, env []string, logPath string) (int, error, bool) {
	cmd := exec.CommandContext(ctx, bin, args...)
	cmd.Dir = filepath.Join(root, "checks")
	cmd.Env = append(goEnv(), env...)
	f, err := os.Create(logPath)
	if err != nil {
		return -1, err, false
	}
	defer f.Close()
	cmd.Stdout, cmd.Stderr = f, f
	err = cmd.Run()
	if ctx.Err() == context.DeadlineExceeded {
		return -1, ctx.Err(), true
	}
	if err == nil {
		return 0, nil, false
	}
	if ee, ok := err.(*exec.ExitError); ok {
		return ee.ExitCode(), nil, false
	}
	return -1, err, false
}

type statsFile struct {
	Prop          string               `json:"prop"`
	Shard         int                  `json:"shard"`
	Evaluations   int64                `json:"evaluations"`
	DistinctCount int64                `json:"distinct_count"`
	HashCount     int                  `json:"hash_count"`
	Classes       map[string]int64     `json:"classes"`
	Known         map[string]int64     `json:"known"`
	Subs          map[string]*subStats `json:"subs"`
	Samples       []sample             `json:"samples"`
	Notes         []string             `json:"notes"`
	WallS         float64              `json:"wall_s"`
	Failed        int                  `json:"failed"`
}

type subStats struct {
	Evaluations int64  `json:"evaluations"`
	Exhaustive  bool   `json:"exhaustive,omitempty"`
	Space       string `json:"space,omitempty"`
}

type sample struct {
	H    uint64
	Sub  string
	Case json.RawMessage
}

func run(prop, tier string) int {
	cfg := props[prop]
	if cfg == nil {
		fatal2("unknown property %q", prop)
	}
	t0 := time.Now()
	dir := filepath.Join(root, ".build", prop+"-"+tier+os.Getenv("VCHECK_TAG"))
	_ = os.RemoveAll(dir)
	if err := os.MkdirAll(dir, 0o755); err != nil {
		fatal2("mkdir: %v", err)
	}
	_ = os.MkdirAll(evidenceDir(), 0o755)
	_ = os.RemoveAll(filepath.Join(root, "checks", "testdata", "rapid"))

	bin, err := build(dir, false)
	if err != nil {
		fatal2("property=%s build failed (not a violation):\n%v", prop, err)
	}
	raceBin := ""
	if cfg.Race {
		raceBin, err = build(dir, true)
		if err != nil {
			fatal2("property=%s race build failed (not a violation):\n%v", prop, err)
		}
	}

	baseEnv := []string{"VCHECK_PROP=" + prop, "VCHECK_TIER=" + tier, "VCHECK_SEED=" + strconv.FormatInt(seed(), 10), "VCHECK_OUT=" + dir,
		"VCHECK_KNOWN=" + knownFile()}

	// 1. witnesses of listed known findings
	{
		ctx, cancel := context.WithTimeout(context.Background(), 5*time.Minute)
		code, rerr, to := runBin(ctx, bin, []string{"-test.run", "^TestWitnesses$", "-test.v"}, append(baseEnv, "VCHECK_MODE=witness"), filepath.Join(dir, "witness.log"))
		cancel()
		logb, _ := os.ReadFile(filepath.Join(dir, "witness.log"))
		for _, line := range strings.Split(string(logb), "\n") {
			line = strings.TrimSpace(line)
			if i := strings.Index(line, "KNOWN-FINDING:"); i >= 0 {
				fmt.Println(line[i:])
			} else if i := strings.Index(line, "NOTE:"); i >= 0 {
				fmt.Println(line[i:])
			}
		}
		if rerr != nil || to || code != 0 {
			fmt.Printf("%s\n", tail(string(logb), 40))
			fatal2("property=%s witness run failed (code %d, err %v, timeout %v)", prop, code, rerr, to)
		}
	}

	// 2. the search, sharded over processes
	shards := cfg.ShardsQuick
	timeout := cfg.TimeoutQuick
	if tier == "thorough" {
		shards = cfg.ShardsThorough
		timeout = cfg.TimeoutThorough
	}
	if v := os.Getenv("VCHECK_SHARDS"); v != "" {
		if n, err := strconv.Atoi(v); err == nil && n > 0 {
			shards = n
		}
	}
	if cfg.Race && shards%2 == 1 {
		shards++
	}
	results := make([]shardResult, shards)
	var wg sync.WaitGroup
	for s := 0; s < shards; s++ {
		wg.Add(1)
		go func(s int) {
			defer wg.Done()
			ctx, cancel := context.WithTimeout(context.Background(), timeout)
			defer cancel()
			env := append(append([]string{}, baseEnv...), "VCHECK_MODE=search", "VCHECK_SHARD="+strconv.Itoa(s), "VCHECK_NSHARDS="+strconv.Itoa(shards))
			b := bin
			if cfg.Race && s >= shards/2 {
				// second half of the shards: the -race binary (schedules); first half: plain binary (histories)
				b = raceBin
				env = append(env, "GORACE=halt_on_error=1 exitcode=66")
			}
			logPath := filepath.Join(dir, fmt.Sprintf("shard-%d.log", s))
			code, rerr, to := runBin(ctx, b, []string{"-test.run", cfg.Test, "-test.v", "-test.timeout", "0"}, env, logPath)
			results[s] = shardResult{shard: s, code: code, err: rerr, log: logPath, timedOut: to}
		}(s)
	}
	wg.Wait()

	// 3. native fuzzing (thorough tier only): coverage-guided, not seedable; the saved crasher is the reproducible unit
	fuzzExecs := int64(0)
	var fuzzNotes []string
	fuzzFail := ""
	if tier == "thorough" || os.Getenv("VCHECK_FUZZ") != "" {
		for _, ft := range cfg.Fuzz {
			d := ft.Thorough
			if tier != "thorough" {
				d = 20 * time.Second
			}
			if v := os.Getenv("VCHECK_FUZZTIME"); v != "" {
				if dd, err := time.ParseDuration(v); err == nil {
					d = dd
				}
			}
			n, note, failPath := runFuzz(bin, dir, ft.Name, d, baseEnv)
			fuzzExecs += n
			fuzzNotes = append(fuzzNotes, note)
			if failPath != "" && fuzzFail == "" {
				fuzzFail = failPath
			}
		}
	}

	// 4. merge
	merged := statsFile{Classes: map[string]int64{}, Known: map[string]int64{}, Subs: map[string]*subStats{}}
	hashes := map[uint64]struct{}{}
	var samples []sample
	missing := 0
	for s := 0; s < shards; s++ {
		var sf statsFile
		data, err := os.ReadFile(filepath.Join(dir, fmt.Sprintf("stats-%d.json", s)))
		if err != nil || json.Unmarshal(data, &sf) != nil {
			missing++
			continue
		}
		merged.Evaluations += sf.Evaluations
		merged.DistinctCount += sf.DistinctCount
		for k, v := range sf.Classes {
			merged.Classes[k] += v
		}
		for k, v := range sf.Known {
			merged.Known[k] += v
		}
		for k, v := range sf.Subs {
			x := merged.Subs[k]
			if x == nil {
				x = &subStats{Exhaustive: v.Exhaustive, Space: v.Space}
				merged.Subs[k] = x
			}
			x.Evaluations += v.Evaluations
			x.Exhaustive = x.Exhaustive && v.Exhaustive
		}
		merged.Notes = append(merged.Notes, sf.Notes...)
		samples = append(samples, sf.Samples...)
		hb, _ := os.ReadFile(filepath.Join(dir, fmt.Sprintf("hashes-%d.bin", s)))
		for i := 0; i+8 <= len(hb); i += 8 {
			hashes[binary.LittleEndian.Uint64(hb[i:])] = struct{}{}
		}
	}
	sort.Slice(samples, func(i, j int) bool { return samples[i].H < samples[j].H })
	var sampleOut []interface{}
	seen := map[uint64]bool{}
	for _, s := range samples {
		if seen[s.H] || len(sampleOut) >= 8 {
			continue
		}
		seen[s.H] = true
		sampleOut = append(sampleOut, map[string]interface{}{"sub": s.Sub, "case": s.Case})
	}
	merged.Notes = dedup(merged.Notes)

	// 5. verdict
	violation := ""
	inconclusive := ""
	for _, r := range results {
		failPath := filepath.Join(dir, fmt.Sprintf("fail-%d.json", r.shard))
		_, ferr := os.Stat(failPath)
		switch {
		case r.timedOut:
			inconclusive = fmt.Sprintf("shard %d exceeded the driver budget %v", r.shard, timeout)
		case r.err != nil:
			inconclusive = fmt.Sprintf("shard %d could not run: %v", r.shard, r.err)
		case r.code == 0:
			if ferr == nil {
				// a fail file without a failing exit status: stale shrink attempt; ignore
			}
		case r.code == 66 && cfg.Race:
			// data race reported by the race detector: the log is the reproduction
			if violation == "" {
				violation = saveReplay(prop, r.log, failPath)
			}
		default:
			if ferr == nil {
				if violation == "" {
					violation = saveReplay(prop, "", failPath)
				}
			} else {
				lg, _ := os.ReadFile(r.log)
				if isInconclusive(string(lg)) {
					inconclusive = fmt.Sprintf("shard %d reported INCONCLUSIVE:\n%s", r.shard, tail(string(lg), 30))
				} else {
					inconclusive = fmt.Sprintf("shard %d died with exit code %d without a replay file:\n%s", r.shard, r.code, tail(string(lg), 60))
				}
			}
		}
	}
	if violation == "" && fuzzFail != "" {
		violation = saveReplay(prop, "", fuzzFail)
	}

	distinct := int64(len(hashes)) + merged.DistinctCount
	exhaustiveAll := len(merged.Subs) > 0
	for _, v := range merged.Subs {
		if !v.Exhaustive {
			exhaustiveAll = false
		}
	}
	cov := map[string]interface{}{
		"evaluations":              merged.Evaluations + fuzzExecs,
		"distinct_nontrivial":      distinct,
		"rule":                     cfg.Rule,
		"samples":                  sampleOut,
		"exhaustive":               exhaustiveAll,
		"sub_checks":               merged.Subs,
		"class_histogram":          merged.Classes,
		"excluded_known":           merged.Known,
		"shards":                   shards,
		"distinct_by_hash":         len(hashes),
		"distinct_by_construction": merged.DistinctCount,
	}
	if len(fuzzNotes) > 0 {
		cov["native_fuzz"] = fuzzNotes
		cov["native_fuzz_execs"] = fuzzExecs
	}
	if len(merged.Notes) > 0 {
		cov["notes"] = merged.Notes
	}
	if len(sampleOut) == 0 {
		cov["samples"] = []interface{}{"(no non-trivial case was sampled)"}
	}
	viol := 0
	if violation != "" {
		viol = 1
	}
	ev := map[string]interface{}{
		"property_id": prop,
		"tier":        tier,
		"seed":        seed(),
		"level":       "exploration",
		"coverage":    cov,
		"assumptions": cfg.Assumptions,
		"wall_s":      time.Since(t0).Seconds(),
		"violations":  viol,
	}
	if inconclusive != "" {
		ev["inconclusive"] = inconclusive
	}
	eb, _ := json.MarshalIndent(ev, "", " ")
	if err := os.WriteFile(filepath.Join(evidenceDir(), prop+".json"), eb, 0o644); err != nil {
		fatal2("cannot write evidence: %v", err)
	}

	if violation != "" {
		ff := readFail(violation)
		fmt.Printf("property=%s sub-check=%s: %s\n", prop, ff.Sub, firstLines(ff.Message, 12))
		fmt.Printf("VIOLATION property=%s replay=%s\n", prop, violation)
		return 1
	}
	if inconclusive != "" {
		fatal2("property=%s %s", prop, inconclusive)
	}
	if missing > 0 {
		fatal2("property=%s %d shard(s) wrote no statistics", prop, missing)
	}
	fmt.Printf("OK property=%s tier=%s seed=%d evaluations=%d distinct_nontrivial=%d known_excluded=%v wall=%.1fs\n", prop, tier, seed(), merged.Evaluations+fuzzExecs, distinct, merged.Known, time.Since(t0).Seconds())
	if os.Getenv("VCHECK_KEEP") == "" {
		_ = os.RemoveAll(dir)
	}
	return 0
}

func isInconclusive(log string) bool { return strings.Contains(log, "INCONCLUSIVE") }

func dedup(in []string) []string {
	seen := map[string]bool{}
	var out []string
	for _, s := range in {
		if !seen[s] {
			seen[s] = true
			out = append(out, s)
		}
	}
	return out
}

type failFile struct {
	Prop    string          `json:"prop"`
	Sub     string          `json:"sub"`
	Message string          `json:"message"`
	Case    json.RawMessage `json:"case"`
}

func readFail(path string) failFile {
	var ff failFile
	b, _ := os.ReadFile(path)
	_ = json.Unmarshal(b, &ff)
	return ff
}

// saveReplay copies the minimal failing case into /verif/replays and returns its path.
// evidenceDir / replayDir: /verif/evidence and /verif/replays, unless a mutation-testing run
// (VCHECK_REPO set) redirects them so that the clean-tree evidence is not overwritten.
func evidenceDir() string {
	if d := os.Getenv("VCHECK_EVIDENCE_DIR"); d != "" {
		return d
	}
	return filepath.Join(root, "evidence")
}

func replayDir() string {
	if d := os.Getenv("VCHECK_REPLAY_DIR"); d != "" {
		return d
	}
	return filepath.Join(root, "replays")
}

func saveReplay(prop, raceLog, failPath string) string {
	_ = os.MkdirAll(replayDir(), 0o755)
	data, err := os.ReadFile(failPath)
	if err != nil && raceLog != "" {
		// the race detector halted the process: the script that was running is in current-<shard>.json
		lg, _ := os.ReadFile(raceLog)
		ff := failFile{Prop: prop, Sub: "c18-race-report", Message: tail(string(lg), 80), Case: json.RawMessage(`{}`)}
		cur := strings.Replace(failPath, "fail-", "current-", 1)
		if cb, cerr := os.ReadFile(cur); cerr == nil {
			var cf failFile
			if json.Unmarshal(cb, &cf) == nil {
				ff.Sub, ff.Case = cf.Sub, cf.Case
				ff.Message = "DATA RACE reported by the race detector while this script ran:\n" + tail(string(lg), 60)
			}
		}
		data, _ = json.MarshalIndent(ff, "", " ")
	}
	sum := sha256.Sum256(data)
	out := filepath.Join(replayDir(), prop+"-"+hex.EncodeToString(sum[:4])+".json")
	_ = os.WriteFile(out, data, 0o644)
	return out
}

func tail(s string, n int) string {
	lines := strings.Split(strings.TrimRight(s, "\n"), "\n")
	if len(lines) > n {
		lines = lines[len(lines)-n:]
	}
	return strings.Join(lines, "\n")
}

func firstLines(s string, n int) string {
	lines := strings.Split(s, "\n")
	if len(lines) > n {
		lines = lines[:n]
	}
	return strings.Join(lines, "\n")
}

var execsRe = regexp.MustCompile(`execs: (\d+)`)

// runFuzz runs one native fuzz target for a fixed time from the committed seed corpus.
func runFuzz(bin, dir, name string, d time.Duration, baseEnv []string) (execs int64, note string, failPath string) {
	cache := filepath.Join(dir, "fuzzcache-"+name)
	_ = os.MkdirAll(cache, 0o755)
	// crashers are written to checks/testdata/fuzz/<name>/ by the worker; remove stale ones first
	crashDir := filepath.Join(root, "checks", "testdata", "fuzz", name)
	before := listFiles(crashDir)
	ctx, cancel := context.WithTimeout(context.Background(), d+3*time.Minute)
	defer cancel()
	logPath := filepath.Join(dir, "fuzz-"+name+".log")
	env := append(append([]string{}, baseEnv...), "VCHECK_MODE=fuzz", "VCHECK_SHARD=99")
	code, rerr, to := runBin(ctx, bin, []string{"-test.run", "^$", "-test.fuzz", "^" + name + "$", "-test.fuzztime", d.String(), "-test.fuzzcachedir", cache, "-test.parallel", "16", "-test.timeout", "0"}, env, logPath)
	lg, _ := os.ReadFile(logPath)
	for _, m := range execsRe.FindAllStringSubmatch(string(lg), -1) {
		if n, err := strconv.ParseInt(m[1], 10, 64); err == nil && n > execs {
			execs = n
		}
	}
	_ = os.RemoveAll(cache)
	note = fmt.Sprintf("%s: %v, %d execs, exit %d", name, d, execs, code)
	if to || rerr != nil {
		note += " (did not finish: inconclusive)"
		return
	}
	if code != 0 {
		// find the new crasher and the fail file written by the target's oracle
		after := listFiles(crashDir)
		for f := range after {
			if !before[f] {
				note += " crasher=" + f
				// keep crashers out of the committed corpus directory
				_ = os.MkdirAll(filepath.Join(root, "replays"), 0o755)
				data, _ := os.ReadFile(filepath.Join(crashDir, f))
				_ = os.WriteFile(filepath.Join(root, "replays", name+"-"+f), data, 0o644)
				_ = os.Remove(filepath.Join(crashDir, f))
			}
		}
		fp := filepath.Join(dir, "fail-99.json")
		if _, err := os.Stat(fp); err == nil {
			failPath = fp
		} else {
			note += " (non-zero exit without fail file: " + tail(string(lg), 5) + ")"
		}
	}
	return
}

func listFiles(dir string) map[string]bool {
	out := map[string]bool{}
	ents, _ := os.ReadDir(dir)
	for _, e := range ents {
		out[e.Name()] = true
	}
	return out
}

func replay(prop, file string) int {
	if props[prop] == nil {
		fatal2("unknown property %q", prop)
	}
	dir := filepath.Join(root, ".build", prop+"-replay")
	_ = os.MkdirAll(dir, 0o755)
	bin, err := build(dir, props[prop].Race)
	if err != nil {
		fatal2("build failed: %v", err)
	}
	abs, _ := filepath.Abs(file)
	ctx, cancel := context.WithTimeout(context.Background(), 10*time.Minute)
	defer cancel()
	env := []string{"VCHECK_PROP=" + prop, "VCHECK_MODE=replay", "VCHECK_REPLAY=" + abs, "VCHECK_KNOWN=" + filepath.Join(root, "known_findings.json")}
	if props[prop].Race {
		env = append(env, "GORACE=halt_on_error=1 exitcode=66")
	}
	logPath := filepath.Join(dir, "replay.log")
	code, rerr, to := runBin(ctx, bin, []string{"-test.run", "^TestReplay$", "-test.v"}, env, logPath)
	lg, _ := os.ReadFile(logPath)
	fmt.Println(string(lg))
	if rerr != nil || to {
		fatal2("replay could not run: %v timeout=%v", rerr, to)
	}
	if code != 0 {
		fmt.Printf("VIOLATION property=%s replay=%s\n", prop, abs)
		return 1
	}
	fmt.Printf("OK property=%s replay passes on the current tree\n", prop)
	return 0
}

func selftest() int {
	dir := filepath.Join(root, ".build", "selftest")
	_ = os.MkdirAll(dir, 0o755)
	bin, err := build(dir, false)
	if err != nil {
		fatal2("build failed: %v", err)
	}
	ctx, cancel := context.WithTimeout(context.Background(), 10*time.Minute)
	defer cancel()
	logPath := filepath.Join(dir, "selftest.log")
	code, rerr, to := runBin(ctx, bin, []string{"-test.run", "^TestSelf", "-test.v"}, []string{"VCHECK_MODE=selftest"}, logPath)
	lg, _ := os.ReadFile(logPath)
	fmt.Println(tail(string(lg), 40))
	if rerr != nil || to || code != 0 {
		fatal2("reference model self-test failed")
	}
	return 0
}
