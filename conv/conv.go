// Package conv converts between refmodel values and pion/rtcp structs and provides the
// normalising equality used by all oracles (nil == empty slice; XR wire headers of typed
// blocks are not semantic fields).
package conv

import (
	"encoding/json"
	"fmt"
	"reflect"

	"github.com/pion/rtcp"

	m "verif/refmodel"
)

func rblocksToPion(in []m.RBlock) []rtcp.ReceptionReport {
	if in == nil {
		return nil
	}
	out := make([]rtcp.ReceptionReport, len(in))
	for i, r := range in {
		out[i] = rtcp.ReceptionReport{SSRC: r.SSRC, FractionLost: r.Fraction, TotalLost: r.Lost, LastSequenceNumber: r.LastSeq, Jitter: r.Jitter, LastSenderReport: r.LSR, Delay: r.DLSR}
	}
	return out
}

func rblocksFromPion(in []rtcp.ReceptionReport) []m.RBlock {
	var out []m.RBlock
	for _, r := range in {
		out = append(out, m.RBlock{SSRC: r.SSRC, Fraction: r.FractionLost, Lost: r.TotalLost, LastSeq: r.LastSequenceNumber, Jitter: r.Jitter, LSR: r.LastSenderReport, DLSR: r.Delay})
	}
	return out
}

func cp(b []byte) []byte {
	if len(b) == 0 {
		return nil
	}
	return append([]byte(nil), b...)
}

func cp32(b []uint32) []uint32 {
	if len(b) == 0 {
		return nil
	}
	return append([]uint32(nil), b...)
}

// ToPion builds the pion packet for a model value. The result is always a pointer type
// (as rtcp.Unmarshal returns), except CompoundPacket which is returned as *CompoundPacket.
func ToPion(p m.Packet) rtcp.Packet {
	switch p.Kind {
	case m.KSR:
		v := p.SR
		return &rtcp.SenderReport{SSRC: v.SSRC, NTPTime: v.NTP, RTPTime: v.RTP, PacketCount: v.Packets, OctetCount: v.Octets, Reports: rblocksToPion(v.Reports), ProfileExtensions: cp(v.Ext)}
	case m.KRR:
		v := p.RR
		return &rtcp.ReceiverReport{SSRC: v.SSRC, Reports: rblocksToPion(v.Reports), ProfileExtensions: cp(v.Ext)}
	case m.KSDES:
		out := &rtcp.SourceDescription{}
		for _, c := range p.SDES.Chunks {
			pc := rtcp.SourceDescriptionChunk{Source: c.Source}
			for _, it := range c.Items {
				pc.Items = append(pc.Items, rtcp.SourceDescriptionItem{Type: rtcp.SDESType(it.Type), Text: string(it.Text)})
			}
			out.Chunks = append(out.Chunks, pc)
		}
		return out
	case m.KBYE:
		return &rtcp.Goodbye{Sources: cp32(p.BYE.Sources), Reason: string(p.BYE.Reason)}
	case m.KAPP:
		v := p.APP
		return &rtcp.ApplicationDefined{SubType: v.Subtype, SSRC: v.SSRC, Name: string(v.Name), Data: cp(v.Data)}
	case m.KNACK:
		out := &rtcp.TransportLayerNack{SenderSSRC: p.NACK.Sender, MediaSSRC: p.NACK.Media}
		for _, n := range p.NACK.Pairs {
			out.Nacks = append(out.Nacks, rtcp.NackPair{PacketID: n.PID, LostPackets: rtcp.PacketBitmap(n.BLP)})
		}
		return out
	case m.KRRR:
		return &rtcp.RapidResynchronizationRequest{SenderSSRC: p.RRR.Sender, MediaSSRC: p.RRR.Media}
	case m.KPLI:
		return &rtcp.PictureLossIndication{SenderSSRC: p.PLI.Sender, MediaSSRC: p.PLI.Media}
	case m.KSLI:
		out := &rtcp.SliceLossIndication{SenderSSRC: p.SLI.Sender, MediaSSRC: p.SLI.Media}
		for _, e := range p.SLI.Entries {
			out.SLI = append(out.SLI, rtcp.SLIEntry{First: e.First, Number: e.Number, Picture: e.Picture})
		}
		return out
	case m.KFIR:
		out := &rtcp.FullIntraRequest{SenderSSRC: p.FIR.Sender, MediaSSRC: p.FIR.Media}
		for _, e := range p.FIR.Entries {
			out.FIR = append(out.FIR, rtcp.FIREntry{SSRC: e.SSRC, SequenceNumber: e.Seq})
		}
		return out
	case m.KREMB:
		return &rtcp.ReceiverEstimatedMaximumBitrate{SenderSSRC: p.REMB.Sender, Bitrate: p.REMB.Bitrate, SSRCs: cp32(p.REMB.SSRCs)}
	case m.KTWCC:
		v := p.TWCC
		out := &rtcp.TransportLayerCC{
			Header:             rtcp.Header{Padding: v.Padding, Count: rtcp.FormatTCC, Type: rtcp.TypeTransportSpecificFeedback, Length: v.HdrLength},
			SenderSSRC:         v.Sender,
			MediaSSRC:          v.Media,
			BaseSequenceNumber: v.BaseSeq,
			PacketStatusCount:  v.StatusCount,
			ReferenceTime:      v.RefTime,
			FbPktCount:         v.FbCount,
		}
		for _, c := range v.Chunks {
			if c.Vector {
				sz := uint16(rtcp.TypeTCCSymbolSizeOneBit)
				if c.TwoBit {
					sz = rtcp.TypeTCCSymbolSizeTwoBit
				}
				out.PacketChunks = append(out.PacketChunks, &rtcp.StatusVectorChunk{Type: rtcp.TypeTCCStatusVectorChunk, SymbolSize: sz, SymbolList: append([]uint16(nil), c.Symbols...)})
			} else {
				out.PacketChunks = append(out.PacketChunks, &rtcp.RunLengthChunk{Type: rtcp.TypeTCCRunLengthChunk, PacketStatusSymbol: c.Symbol, RunLength: c.Run})
			}
		}
		for _, d := range v.Deltas {
			t := uint16(rtcp.TypeTCCPacketReceivedSmallDelta)
			if d.Large {
				t = rtcp.TypeTCCPacketReceivedLargeDelta
			}
			out.RecvDeltas = append(out.RecvDeltas, &rtcp.RecvDelta{Type: t, Delta: d.Micros})
		}
		return out
	case m.KCCFB:
		out := &rtcp.CCFeedbackReport{SenderSSRC: p.CCFB.Sender, ReportTimestamp: p.CCFB.Timestamp}
		for _, b := range p.CCFB.Blocks {
			pb := rtcp.CCFeedbackReportBlock{MediaSSRC: b.SSRC, BeginSequence: b.BeginSeq}
			for _, mt := range b.Metrics {
				pb.MetricBlocks = append(pb.MetricBlocks, rtcp.CCFeedbackMetricBlock{Received: mt.Received, ECN: rtcp.ECN(mt.ECN), ArrivalTimeOffset: mt.ATO})
			}
			out.ReportBlocks = append(out.ReportBlocks, pb)
		}
		return out
	case m.KXR:
		out := &rtcp.ExtendedReport{SenderSSRC: p.XR.Sender}
		for _, b := range p.XR.Blocks {
			out.Reports = append(out.Reports, XRBlockToPion(b))
		}
		return out
	case m.KRAW:
		r := rtcp.RawPacket(cp(p.RAW))
		return &r
	case m.KCOMPOUND:
		c := rtcp.CompoundPacket{}
		for _, mm := range p.Compound {
			c = append(c, ToPion(mm))
		}
		return &c
	}
	panic("conv.ToPion: unknown kind " + string(p.Kind))
}

func chunksToPion(in []uint16) []rtcp.Chunk {
	var out []rtcp.Chunk
	for _, c := range in {
		out = append(out, rtcp.Chunk(c))
	}
	return out
}

func XRBlockToPion(b m.XRBlock) rtcp.ReportBlock {
	switch b.BT {
	case m.XRLossRLE:
		return &rtcp.LossRLEReportBlock{T: b.T, SSRC: b.SSRC, BeginSeq: b.BeginSeq, EndSeq: b.EndSeq, Chunks: chunksToPion(b.Chunks)}
	case m.XRDupRLE:
		return &rtcp.DuplicateRLEReportBlock{T: b.T, SSRC: b.SSRC, BeginSeq: b.BeginSeq, EndSeq: b.EndSeq, Chunks: chunksToPion(b.Chunks)}
	case m.XRPRT:
		return &rtcp.PacketReceiptTimesReportBlock{T: b.T, SSRC: b.SSRC, BeginSeq: b.BeginSeq, EndSeq: b.EndSeq, ReceiptTime: cp32(b.Times)}
	case m.XRRRT:
		return &rtcp.ReceiverReferenceTimeReportBlock{NTPTimestamp: b.NTP}
	case m.XRDLRR:
		out := &rtcp.DLRRReportBlock{}
		for _, s := range b.Subs {
			out.Reports = append(out.Reports, rtcp.DLRRReport{SSRC: s.SSRC, LastRR: s.LastRR, DLRR: s.DLRR})
		}
		return out
	case m.XRSS:
		s := b.SS
		return &rtcp.StatisticsSummaryReportBlock{LossReports: s.L, DuplicateReports: s.D, JitterReports: s.J, TTLorHopLimit: rtcp.TTLorHopLimitType(s.ToH),
			SSRC: s.SSRC, BeginSeq: s.BeginSeq, EndSeq: s.EndSeq, LostPackets: s.Lost, DupPackets: s.Dup, MinJitter: s.MinJitter, MaxJitter: s.MaxJitter,
			MeanJitter: s.MeanJitter, DevJitter: s.DevJitter, MinTTLOrHL: s.MinTTL, MaxTTLOrHL: s.MaxTTL, MeanTTLOrHL: s.MeanTTL, DevTTLOrHL: s.DevTTL}
	case m.XRVoIP:
		v := b.VoIP
		return &rtcp.VoIPMetricsReportBlock{SSRC: v.SSRC, LossRate: v.LossRate, DiscardRate: v.DiscardRate, BurstDensity: v.BurstDensity, GapDensity: v.GapDensity,
			BurstDuration: v.BurstDuration, GapDuration: v.GapDuration, RoundTripDelay: v.RTT, EndSystemDelay: v.EndSysDelay, SignalLevel: v.SignalLevel,
			NoiseLevel: v.NoiseLevel, RERL: v.RERL, Gmin: v.Gmin, RFactor: v.RFactor, ExtRFactor: v.ExtRFactor, MOSLQ: v.MOSLQ, MOSCQ: v.MOSCQ, RXConfig: v.RXConfig,
			JBNominal: v.JBNominal, JBMaximum: v.JBMax, JBAbsMax: v.JBAbsMax}
	}
	return &rtcp.UnknownReportBlock{XRHeader: rtcp.XRHeader{BlockType: rtcp.BlockTypeType(b.BT), TypeSpecific: rtcp.TypeSpecificField(b.TypeSpecific)}, Bytes: cp(b.Body)}
}

func chunksFromPion(in []rtcp.Chunk) []uint16 {
	var out []uint16
	for _, c := range in {
		out = append(out, uint16(c))
	}
	return out
}

func XRBlockFromPion(rb rtcp.ReportBlock) (m.XRBlock, error) {
	switch b := rb.(type) {
	case *rtcp.LossRLEReportBlock:
		return m.XRBlock{BT: m.XRLossRLE, T: b.T, SSRC: b.SSRC, BeginSeq: b.BeginSeq, EndSeq: b.EndSeq, Chunks: chunksFromPion(b.Chunks)}, nil
	case *rtcp.DuplicateRLEReportBlock:
		return m.XRBlock{BT: m.XRDupRLE, T: b.T, SSRC: b.SSRC, BeginSeq: b.BeginSeq, EndSeq: b.EndSeq, Chunks: chunksFromPion(b.Chunks)}, nil
	case *rtcp.PacketReceiptTimesReportBlock:
		return m.XRBlock{BT: m.XRPRT, T: b.T, SSRC: b.SSRC, BeginSeq: b.BeginSeq, EndSeq: b.EndSeq, Times: cp32(b.ReceiptTime)}, nil
	case *rtcp.ReceiverReferenceTimeReportBlock:
		return m.XRBlock{BT: m.XRRRT, NTP: b.NTPTimestamp}, nil
	case *rtcp.DLRRReportBlock:
		out := m.XRBlock{BT: m.XRDLRR}
		for _, s := range b.Reports {
			out.Subs = append(out.Subs, m.DLRRSub{SSRC: s.SSRC, LastRR: s.LastRR, DLRR: s.DLRR})
		}
		return out, nil
	case *rtcp.StatisticsSummaryReportBlock:
		return m.XRBlock{BT: m.XRSS, SS: &m.XRSS_{L: b.LossReports, D: b.DuplicateReports, J: b.JitterReports, ToH: uint8(b.TTLorHopLimit), SSRC: b.SSRC,
			BeginSeq: b.BeginSeq, EndSeq: b.EndSeq, Lost: b.LostPackets, Dup: b.DupPackets, MinJitter: b.MinJitter, MaxJitter: b.MaxJitter, MeanJitter: b.MeanJitter,
			DevJitter: b.DevJitter, MinTTL: b.MinTTLOrHL, MaxTTL: b.MaxTTLOrHL, MeanTTL: b.MeanTTLOrHL, DevTTL: b.DevTTLOrHL}}, nil
	case *rtcp.VoIPMetricsReportBlock:
		return m.XRBlock{BT: m.XRVoIP, VoIP: &m.XRVoIP_{SSRC: b.SSRC, LossRate: b.LossRate, DiscardRate: b.DiscardRate, BurstDensity: b.BurstDensity, GapDensity: b.GapDensity,
			BurstDuration: b.BurstDuration, GapDuration: b.GapDuration, RTT: b.RoundTripDelay, EndSysDelay: b.EndSystemDelay, SignalLevel: b.SignalLevel,
			NoiseLevel: b.NoiseLevel, RERL: b.RERL, Gmin: b.Gmin, RFactor: b.RFactor, ExtRFactor: b.ExtRFactor, MOSLQ: b.MOSLQ, MOSCQ: b.MOSCQ, RXConfig: b.RXConfig,
			JBNominal: b.JBNominal, JBMax: b.JBMaximum, JBAbsMax: b.JBAbsMax}}, nil
	case *rtcp.UnknownReportBlock:
		return m.XRBlock{BT: uint8(b.BlockType), TypeSpecific: uint8(b.TypeSpecific), Body: cp(b.Bytes)}, nil
	}
	return m.XRBlock{}, fmt.Errorf("conv: unknown XR block type %T", rb)
}

// GoType is the dynamic type name of the packet rtcp.Unmarshal is expected to return for a kind.
func GoType(k m.Kind) string {
	return map[m.Kind]string{
		m.KSR: "*rtcp.SenderReport", m.KRR: "*rtcp.ReceiverReport", m.KSDES: "*rtcp.SourceDescription", m.KBYE: "*rtcp.Goodbye",
		m.KAPP: "*rtcp.ApplicationDefined", m.KNACK: "*rtcp.TransportLayerNack", m.KRRR: "*rtcp.RapidResynchronizationRequest",
		m.KTWCC: "*rtcp.TransportLayerCC", m.KCCFB: "*rtcp.CCFeedbackReport", m.KPLI: "*rtcp.PictureLossIndication",
		m.KSLI: "*rtcp.SliceLossIndication", m.KFIR: "*rtcp.FullIntraRequest", m.KREMB: "*rtcp.ReceiverEstimatedMaximumBitrate",
		m.KXR: "*rtcp.ExtendedReport", m.KRAW: "*rtcp.RawPacket", m.KCOMPOUND: "*rtcp.CompoundPacket",
	}[k]
}

// New returns a fresh zero receiver for a kind.
func New(k m.Kind) rtcp.Packet {
	switch k {
	case m.KSR:
		return new(rtcp.SenderReport)
	case m.KRR:
		return new(rtcp.ReceiverReport)
	case m.KSDES:
		return new(rtcp.SourceDescription)
	case m.KBYE:
		return new(rtcp.Goodbye)
	case m.KAPP:
		return new(rtcp.ApplicationDefined)
	case m.KNACK:
		return new(rtcp.TransportLayerNack)
	case m.KRRR:
		return new(rtcp.RapidResynchronizationRequest)
	case m.KTWCC:
		return new(rtcp.TransportLayerCC)
	case m.KCCFB:
		return new(rtcp.CCFeedbackReport)
	case m.KPLI:
		return new(rtcp.PictureLossIndication)
	case m.KSLI:
		return new(rtcp.SliceLossIndication)
	case m.KFIR:
		return new(rtcp.FullIntraRequest)
	case m.KREMB:
		return new(rtcp.ReceiverEstimatedMaximumBitrate)
	case m.KXR:
		return new(rtcp.ExtendedReport)
	case m.KRAW:
		return new(rtcp.RawPacket)
	case m.KCOMPOUND:
		return new(rtcp.CompoundPacket)
	}
	panic("conv.New: " + string(k))
}

// FromPion copies every semantic exported field of a pion packet into the model.
func FromPion(pk rtcp.Packet) (m.Packet, error) {
	switch v := pk.(type) {
	case *rtcp.SenderReport:
		return m.Packet{Kind: m.KSR, SR: &m.SR{SSRC: v.SSRC, NTP: v.NTPTime, RTP: v.RTPTime, Packets: v.PacketCount, Octets: v.OctetCount, Reports: rblocksFromPion(v.Reports), Ext: cp(v.ProfileExtensions)}}, nil
	case *rtcp.ReceiverReport:
		return m.Packet{Kind: m.KRR, RR: &m.RR{SSRC: v.SSRC, Reports: rblocksFromPion(v.Reports), Ext: cp(v.ProfileExtensions)}}, nil
	case *rtcp.SourceDescription:
		out := &m.SDES{}
		for _, c := range v.Chunks {
			mc := m.SDESChunk{Source: c.Source}
			for _, it := range c.Items {
				mc.Items = append(mc.Items, m.SDESItem{Type: uint8(it.Type), Text: cp([]byte(it.Text))})
			}
			out.Chunks = append(out.Chunks, mc)
		}
		return m.Packet{Kind: m.KSDES, SDES: out}, nil
	case *rtcp.Goodbye:
		return m.Packet{Kind: m.KBYE, BYE: &m.BYE{Sources: cp32(v.Sources), Reason: cp([]byte(v.Reason))}}, nil
	case *rtcp.ApplicationDefined:
		return m.Packet{Kind: m.KAPP, APP: &m.APP{Subtype: v.SubType, SSRC: v.SSRC, Name: cp([]byte(v.Name)), Data: cp(v.Data)}}, nil
	case *rtcp.TransportLayerNack:
		out := &m.NACK{Sender: v.SenderSSRC, Media: v.MediaSSRC}
		for _, n := range v.Nacks {
			out.Pairs = append(out.Pairs, m.NackPair{PID: n.PacketID, BLP: uint16(n.LostPackets)})
		}
		return m.Packet{Kind: m.KNACK, NACK: out}, nil
	case *rtcp.RapidResynchronizationRequest:
		return m.Packet{Kind: m.KRRR, RRR: &m.FB{Sender: v.SenderSSRC, Media: v.MediaSSRC}}, nil
	case *rtcp.PictureLossIndication:
		return m.Packet{Kind: m.KPLI, PLI: &m.FB{Sender: v.SenderSSRC, Media: v.MediaSSRC}}, nil
	case *rtcp.SliceLossIndication:
		out := &m.SLI{Sender: v.SenderSSRC, Media: v.MediaSSRC}
		for _, e := range v.SLI {
			out.Entries = append(out.Entries, m.SLIEntry{First: e.First, Number: e.Number, Picture: e.Picture})
		}
		return m.Packet{Kind: m.KSLI, SLI: out}, nil
	case *rtcp.FullIntraRequest:
		out := &m.FIR{Sender: v.SenderSSRC, Media: v.MediaSSRC}
		for _, e := range v.FIR {
			out.Entries = append(out.Entries, m.FIREntry{SSRC: e.SSRC, Seq: e.SequenceNumber})
		}
		return m.Packet{Kind: m.KFIR, FIR: out}, nil
	case *rtcp.ReceiverEstimatedMaximumBitrate:
		return m.Packet{Kind: m.KREMB, REMB: &m.REMB{Sender: v.SenderSSRC, Bitrate: v.Bitrate, SSRCs: cp32(v.SSRCs)}}, nil
	case *rtcp.TransportLayerCC:
		out := &m.TWCC{Padding: v.Header.Padding, HdrLength: v.Header.Length, Sender: v.SenderSSRC, Media: v.MediaSSRC, BaseSeq: v.BaseSequenceNumber,
			StatusCount: v.PacketStatusCount, RefTime: v.ReferenceTime, FbCount: v.FbPktCount}
		if v.Header.Count != rtcp.FormatTCC || v.Header.Type != rtcp.TypeTransportSpecificFeedback {
			return m.Packet{}, fmt.Errorf("conv: TWCC header %+v", v.Header)
		}
		for _, c := range v.PacketChunks {
			switch cc := c.(type) {
			case *rtcp.RunLengthChunk:
				out.Chunks = append(out.Chunks, m.TWCCChunk{Symbol: cc.PacketStatusSymbol, Run: cc.RunLength})
			case *rtcp.StatusVectorChunk:
				out.Chunks = append(out.Chunks, m.TWCCChunk{Vector: true, TwoBit: cc.SymbolSize == rtcp.TypeTCCSymbolSizeTwoBit, Symbols: append([]uint16(nil), cc.SymbolList...)})
			default:
				return m.Packet{}, fmt.Errorf("conv: TWCC chunk type %T", c)
			}
		}
		for _, d := range v.RecvDeltas {
			if d == nil {
				return m.Packet{}, fmt.Errorf("conv: nil RecvDelta")
			}
			switch d.Type {
			case rtcp.TypeTCCPacketReceivedSmallDelta:
				out.Deltas = append(out.Deltas, m.TWCCDelta{Micros: d.Delta})
			case rtcp.TypeTCCPacketReceivedLargeDelta:
				out.Deltas = append(out.Deltas, m.TWCCDelta{Large: true, Micros: d.Delta})
			default:
				return m.Packet{}, fmt.Errorf("conv: RecvDelta type %d", d.Type)
			}
		}
		return m.Packet{Kind: m.KTWCC, TWCC: out}, nil
	case *rtcp.CCFeedbackReport:
		out := &m.CCFB{Sender: v.SenderSSRC, Timestamp: v.ReportTimestamp}
		for _, b := range v.ReportBlocks {
			mb := m.CCFBBlock{SSRC: b.MediaSSRC, BeginSeq: b.BeginSequence}
			for _, mt := range b.MetricBlocks {
				mb.Metrics = append(mb.Metrics, m.CCFBMetric{Received: mt.Received, ECN: uint8(mt.ECN), ATO: mt.ArrivalTimeOffset})
			}
			out.Blocks = append(out.Blocks, mb)
		}
		return m.Packet{Kind: m.KCCFB, CCFB: out}, nil
	case *rtcp.ExtendedReport:
		out := &m.XR{Sender: v.SenderSSRC}
		for _, rb := range v.Reports {
			b, err := XRBlockFromPion(rb)
			if err != nil {
				return m.Packet{}, err
			}
			out.Blocks = append(out.Blocks, b)
		}
		return m.Packet{Kind: m.KXR, XR: out}, nil
	case *rtcp.RawPacket:
		return m.Packet{Kind: m.KRAW, RAW: cp([]byte(*v))}, nil
	case *rtcp.CompoundPacket:
		out := m.Packet{Kind: m.KCOMPOUND}
		for _, mm := range *v {
			x, err := FromPion(mm)
			if err != nil {
				return m.Packet{}, err
			}
			out.Compound = append(out.Compound, x)
		}
		return out, nil
	case nil:
		return m.Packet{}, fmt.Errorf("conv: nil packet")
	}
	return m.Packet{}, fmt.Errorf("conv: unexpected packet type %T", pk)
}

// FromPionList converts a packet list.
func FromPionList(ps []rtcp.Packet) ([]m.Packet, error) {
	var out []m.Packet
	for _, p := range ps {
		x, err := FromPion(p)
		if err != nil {
			return nil, err
		}
		out = append(out, x)
	}
	return out, nil
}

// Norm maps every empty slice reachable from v to nil, in place (v must be a pointer).
func Norm(v interface{}) { norm(reflect.ValueOf(v)) }

func norm(v reflect.Value) {
	switch v.Kind() {
	case reflect.Ptr, reflect.Interface:
		if !v.IsNil() {
			norm(v.Elem())
		}
	case reflect.Struct:
		for i := 0; i < v.NumField(); i++ {
			norm(v.Field(i))
		}
	case reflect.Slice:
		if v.Len() == 0 {
			if !v.IsNil() && v.CanSet() {
				v.Set(reflect.Zero(v.Type()))
			}
			return
		}
		if k := v.Type().Elem().Kind(); k == reflect.Struct || k == reflect.Slice || k == reflect.Ptr || k == reflect.Interface {
			for i := 0; i < v.Len(); i++ {
				norm(v.Index(i))
			}
		}
	}
}

// Equal compares two model packets with nil == empty.
func Equal(a, b m.Packet) bool {
	Norm(&a)
	Norm(&b)
	return reflect.DeepEqual(a, b)
}

func EqualList(a, b []m.Packet) bool {
	if len(a) != len(b) {
		return false
	}
	for i := range a {
		if !Equal(a[i], b[i]) {
			return false
		}
	}
	return true
}

// JSON renders a value compactly for messages.
func JSON(v interface{}) string {
	b, err := json.Marshal(v)
	if err != nil {
		return fmt.Sprintf("<%v>", err)
	}
	if len(b) > 4000 {
		return string(b[:4000]) + "...(truncated)"
	}
	return string(b)
}

// Diff describes the first difference between two model packets.
func Diff(want, got m.Packet) string {
	return fmt.Sprintf("want %s\n got %s", JSON(want), JSON(got))
}
