#!/bin/sh
# Builds the driver and warms the Go build cache, offline, from files on disk only.
set -e
cd /verif
export GOFLAGS=-mod=mod GOPROXY=off GOSUMDB=off GOTOOLCHAIN=local
mkdir -p bin evidence replays .build
go build -o bin/vcheck ./cmd/vcheck
go build -o bin/mutgen ./tools/mutgen   # only used by tools/mutcampaign.py, not by any check
# warm the cache (plain and race builds of the check binary)
go test -c -tags verif -vet=off -o .build/warm.test ./checks
go test -c -tags verif -vet=off -race -o .build/warm.race.test ./checks
rm -f .build/warm.test .build/warm.race.test
echo setup ok
