package checks

import (
	"bytes"
	"fmt"
	"reflect"
	"testing"

	"github.com/pion/rtcp"
	"pgregory.net/rapid"

	"verif/conv"
	"verif/gen"
	"verif/harness"
	m "verif/refmodel"
)

// C15: XR report blocks are self-delimiting; unknown blocks survive verbatim.

type c15Case struct {
	X m.XR
	// Junk != 0: the blocks' exported XRHeader fields hold stale values before Marshal (as after
	// a decode-edit cycle or when a block struct is reused); Marshal fills the wire header in
	// from the semantic fields, so what was there before must not matter.
	Junk uint32 `json:",omitempty"`
}

func c15ApplyJunk(x *rtcp.ExtendedReport, junk uint32) {
	if junk == 0 {
		return
	}
	for i, rb := range x.Reports {
		j := junk*uint32(2*i+1) + uint32(i)
		h := rtcp.XRHeader{BlockType: rtcp.BlockTypeType(j), TypeSpecific: rtcp.TypeSpecificField(j >> 8), BlockLength: uint16(j >> 16)}
		switch b := rb.(type) {
		case *rtcp.LossRLEReportBlock:
			b.XRHeader = h
		case *rtcp.DuplicateRLEReportBlock:
			b.XRHeader = h
		case *rtcp.PacketReceiptTimesReportBlock:
			b.XRHeader = h
		case *rtcp.ReceiverReferenceTimeReportBlock:
			b.XRHeader = h
		case *rtcp.DLRRReportBlock:
			b.XRHeader = h
		case *rtcp.StatisticsSummaryReportBlock:
			b.XRHeader = h
		case *rtcp.VoIPMetricsReportBlock:
			b.XRHeader = h
		case *rtcp.UnknownReportBlock:
			b.XRHeader.BlockLength = h.BlockLength // type and type-specific octet are this block's content
		}
	}
}

var xrGoType = map[uint8]string{
	1: "*rtcp.LossRLEReportBlock", 2: "*rtcp.DuplicateRLEReportBlock", 3: "*rtcp.PacketReceiptTimesReportBlock", 4: "*rtcp.ReceiverReferenceTimeReportBlock",
	5: "*rtcp.DLRRReportBlock", 6: "*rtcp.StatisticsSummaryReportBlock", 7: "*rtcp.VoIPMetricsReportBlock",
}

func xrTypeOf(bt uint8) string {
	if s, ok := xrGoType[bt]; ok {
		return s
	}
	return "*rtcp.UnknownReportBlock"
}

var subC15 = harness.NewSub("c15-xr-blocks-self-delimiting", func(c c15Case, _ harness.Dialect) error {
	p := m.Packet{Kind: m.KXR, XR: &c.X}
	pk := conv.ToPion(p).(*rtcp.ExtendedReport)
	c15ApplyJunk(pk, c.Junk)
	out, err := pk.Marshal()
	// a block that is not a whole number of words (odd RLE chunk count, opaque content that is
	// not a multiple of four) cannot carry a block length equal to its size: Marshal must refuse it
	for i, blk := range c.X.Blocks {
		if _, werr := m.EncodeXRBlock(blk, nil); werr != nil {
			if err == nil {
				return fmt.Errorf("block %d (BT %d) is not a whole number of 32-bit words (%v) but Marshal succeeded: its block length field cannot equal its size in words minus one, so the blocks after it are not where their length fields say\nbytes: %s\nvalue: %s", i, blk.BT, werr, hexs(out), conv.JSON(c.X))
			}
			return nil
		}
	}
	if err != nil {
		return fmt.Errorf("Marshal rejected a well-formed XR: %v\nvalue: %s", err, conv.JSON(c.X))
	}
	// (1) independent block walker
	if len(out) < 8 || len(out)%4 != 0 {
		return fmt.Errorf("XR output of %d octets", len(out))
	}
	pos := 8
	for i, blk := range c.X.Blocks {
		if pos+4 > len(out) {
			return fmt.Errorf("block %d (BT %d): output ends at %d, no room for the block header\nbytes: %s", i, blk.BT, len(out), hexs(out))
		}
		bt, ts, words := out[pos], out[pos+1], int(out[pos+2])<<8|int(out[pos+3])
		want, werr := m.EncodeXRBlock(blk, nil)
		if werr != nil {
			return fmt.Errorf("GENERATOR BUG: %v", werr)
		}
		if bt != blk.BT {
			return fmt.Errorf("block %d: block type octet %d, the value is a %s (BT %d)\nbytes: %s", i, bt, xrTypeOf(blk.BT), blk.BT, hexs(out))
		}
		if 4*(words+1) != len(want) {
			return fmt.Errorf("block %d (BT %d): block length field %d words-minus-one, the block is %d octets (= %d)\nbytes: %s", i, bt, words, len(want), len(want)/4-1, hexs(out))
		}
		if ts != want[1] {
			return fmt.Errorf("block %d (BT %d): type-specific octet %#02x, RFC 3611 packing of the value gives %#02x\nvalue: %s", i, bt, ts, want[1], conv.JSON(blk))
		}
		end := pos + 4*(words+1)
		if end > len(out) {
			return fmt.Errorf("block %d (BT %d) claims %d octets but only %d remain", i, bt, 4*(words+1), len(out)-pos)
		}
		if !bytes.Equal(out[pos:end], want) {
			return fmt.Errorf("block %d (BT %d): content differs from the RFC 3611 layout at block offset %d\n got %s\nwant %s", i, bt, firstDiff(out[pos:end], want, nil), hexs(out[pos:end]), hexs(want))
		}
		pos = end
	}
	if pos != len(out) {
		return fmt.Errorf("the block walk ends at %d but the packet is %d octets\nbytes: %s", pos, len(out), hexs(out))
	}
	// (2) decode: same number of blocks, Go type per BT, equal fields
	var dec rtcp.ExtendedReport
	if err := dec.Unmarshal(append([]byte(nil), out...)); err != nil {
		return fmt.Errorf("own decoder rejects the output: %v\nbytes: %s", err, hexs(out))
	}
	if len(dec.Reports) != len(c.X.Blocks) {
		return fmt.Errorf("%d blocks encoded, %d decoded\nbytes: %s", len(c.X.Blocks), len(dec.Reports), hexs(out))
	}
	for i, rb := range dec.Reports {
		if tn := reflect.TypeOf(rb).String(); tn != xrTypeOf(c.X.Blocks[i].BT) {
			return fmt.Errorf("block %d (BT %d) decoded as %s, want %s", i, c.X.Blocks[i].BT, tn, xrTypeOf(c.X.Blocks[i].BT))
		}
		got, cerr := conv.XRBlockFromPion(rb)
		if cerr != nil {
			return cerr
		}
		if !conv.Equal(m.Packet{Kind: m.KXR, XR: &m.XR{Blocks: []m.XRBlock{got}}}, m.Packet{Kind: m.KXR, XR: &m.XR{Blocks: []m.XRBlock{c.X.Blocks[i]}}}) {
			return fmt.Errorf("block %d (BT %d) decodes to different fields\n got %s\nwant %s", i, c.X.Blocks[i].BT, conv.JSON(got), conv.JSON(c.X.Blocks[i]))
		}
	}
	if dec.SenderSSRC != c.X.Sender {
		return fmt.Errorf("sender SSRC %#x decoded as %#x", c.X.Sender, dec.SenderSSRC)
	}
	// (3) independence: each block decoded alone gives the same block as decoded among its neighbours
	for i, blk := range c.X.Blocks {
		alone := conv.ToPion(m.Packet{Kind: m.KXR, XR: &m.XR{Sender: c.X.Sender, Blocks: []m.XRBlock{blk}}})
		ab, err := alone.Marshal()
		if err != nil {
			return fmt.Errorf("single-block XR (BT %d) rejected: %v", blk.BT, err)
		}
		var ad rtcp.ExtendedReport
		if err := ad.Unmarshal(ab); err != nil || len(ad.Reports) != 1 {
			return fmt.Errorf("single-block XR (BT %d) does not decode: %v", blk.BT, err)
		}
		g1, _ := conv.XRBlockFromPion(ad.Reports[0])
		g2, _ := conv.XRBlockFromPion(dec.Reports[i])
		if !reflect.DeepEqual(normBlock(g1), normBlock(g2)) {
			return fmt.Errorf("block %d (BT %d) decodes differently alone and among its neighbours\nalone: %s\namong: %s", i, blk.BT, conv.JSON(g1), conv.JSON(g2))
		}
	}
	// (4) unknown blocks survive decode -> Marshal -> decode verbatim
	re, err := dec.Marshal()
	if err != nil {
		return fmt.Errorf("re-marshal of the decoded XR failed: %v", err)
	}
	if !bytes.Equal(re, out) {
		return fmt.Errorf("re-marshal of the decoded XR differs at octet %d\nfirst:  %s\nsecond: %s", firstDiff(re, out, nil), hexs(out), hexs(re))
	}
	return nil
})

func normBlock(b m.XRBlock) m.XRBlock {
	x := m.Packet{Kind: m.KXR, XR: &m.XR{Blocks: []m.XRBlock{b}}}
	conv.Norm(&x)
	return x.XR.Blocks[0]
}

func c15NonTrivial(x *m.XR) bool {
	if len(x.Blocks) < 2 {
		return false
	}
	kinds := map[uint8]bool{}
	variableNotLast := false
	for i, b := range x.Blocks {
		kinds[b.BT] = true
		variable := b.BT == 1 || b.BT == 2 || b.BT == 3 || b.BT == 5 || b.BT == 0 || b.BT > 7
		if variable && i < len(x.Blocks)-1 {
			variableNotLast = true
		}
	}
	return len(kinds) >= 2 && variableNotLast
}

// c15LargeBlocks: blocks whose size in octets reaches or passes 2^16 (block length field 16383
// and above, up to 65533, the largest a packet holds) of every variable-length kind, alone and
// with typed neighbours on both sides: a block length kept in too few bits, or multiplied by four
// in 16 bits, makes such a block swallow or expose its neighbours.
func c15LargeBlocks() []c15Case {
	var out []c15Case
	rrt := m.XRBlock{BT: m.XRRRT, NTP: 0x0102030405060708}
	dl := m.XRBlock{BT: m.XRDLRR, Subs: []m.DLRRSub{{SSRC: 0x11, LastRR: 0x22, DLRR: 0x33}}}
	for _, L := range []int{16382, 16383, 16384, 16385, 32767, 32768, 49152, 65533} {
		for kind := 0; kind < 5; kind++ {
			var b m.XRBlock
			switch kind {
			case 0, 1:
				b = m.XRBlock{BT: uint8(m.XRLossRLE + kind), T: 5, SSRC: 0xa1a2a3a4, BeginSeq: 7, EndSeq: 9, Chunks: make([]uint16, 2*L-4)}
				for i := range b.Chunks {
					b.Chunks[i] = uint16(i*40503 + 1)
				}
			case 2:
				b = m.XRBlock{BT: m.XRPRT, T: 9, SSRC: 0xb1b2b3b4, BeginSeq: 1, EndSeq: 2, Times: make([]uint32, L-2)}
				for i := range b.Times {
					b.Times[i] = uint32(i)*2654435761 + 1
				}
			case 3:
				b = m.XRBlock{BT: m.XRDLRR, Subs: make([]m.DLRRSub, (L+2)/3)}
				for i := range b.Subs {
					b.Subs[i] = m.DLRRSub{SSRC: uint32(i) + 1, LastRR: uint32(i) * 3, DLRR: ^uint32(i)}
				}
			default:
				b = m.XRBlock{BT: 99, TypeSpecific: 0xA5, Body: make([]byte, 4*L)}
				for i := range b.Body {
					b.Body[i] = byte(i*7 + 1)
				}
			}
			if L <= 65533 && !(kind == 3 && L == 65533) {
				out = append(out, c15Case{X: m.XR{Sender: 0xdeadbeef, Blocks: []m.XRBlock{b}}})
			}
			if L < 65000 {
				out = append(out, c15Case{X: m.XR{Sender: 0xdeadbeef, Blocks: []m.XRBlock{rrt, b, dl}}})
			}
		}
	}
	return out
}

func TestC15(t *testing.T) {
	defer harness.Uncaught(t)
	if harness.Cfg.Shard == 0 {
		ls := c15LargeBlocks()
		for _, c := range ls {
			subC15.Check(t, c)
			harness.Class("large-block:bt:"+xrTypeOf(c.X.Blocks[len(c.X.Blocks)/2].BT), 1)
		}
		harness.Eval(subC15.Name+"/large-blocks", int64(len(ls)))
		harness.NonTrivialDistinct(int64(len(ls)))
		harness.Exhaustive(subC15.Name+"/large-blocks", "5 variable-length block kinds x block length 16382..16385, 32767, 32768, 49152, 65533 x {alone, between a receiver reference time and a DLRR block}")
	}
	maxBlocks := 8
	if harness.Thorough() {
		maxBlocks = 40
	}
	harness.RapidCheck(t, harness.Scale(4000, 30000), 15, func(rt *rapid.T) {
		c := c15Case{X: *gen.XR(rt, maxBlocks)}
		if rapid.IntRange(0, 2).Draw(rt, "stale.header?") == 0 {
			c.Junk = gen.U32(rt, "stale.header") | 1
		}
		cl := []string{fmt.Sprintf("blocks:%s", lenBucket(len(c.X.Blocks)))}
		if c.Junk != 0 {
			cl = append(cl, "stale-XRHeader-before-Marshal")
		}
		for _, b := range c.X.Blocks {
			cl = append(cl, "bt:"+xrTypeOf(b.BT))
		}
		harness.Record(subC15.Name, c, c15NonTrivial(&c.X), cl...)
		subC15.Check(rt, c)
	})
	// list lengths include the ones that do not fill a whole word: odd RLE chunk counts, opaque
	// bodies of any length - alone and in combinations whose misalignments cancel
	harness.RapidCheck(t, harness.Scale(1500, 12000), 152, func(rt *rapid.T) {
		x := gen.XR(rt, 5)
		unaligned := 0
		for i := range x.Blocks {
			b := &x.Blocks[i]
			if rapid.IntRange(0, 1).Draw(rt, "unalign?") == 0 {
				continue
			}
			switch {
			case b.BT == m.XRLossRLE || b.BT == m.XRDupRLE:
				b.Chunks = append(b.Chunks, gen.U16(rt, "oddchunk"))
				unaligned++
			case b.BT == 0 || b.BT > 7:
				b.Body = append(b.Body, gen.BytesN(rt, rapid.IntRange(1, 3).Draw(rt, "bodyextra"), "body")...)
				unaligned++
			}
		}
		c := c15Case{X: *x}
		harness.Record(subC15.Name, c, unaligned > 0, fmt.Sprintf("unaligned-blocks:%d", unaligned))
		subC15.Check(rt, c)
	})
	// exhaustive over all ordered pairs and triples of the 8 block kinds (fields drawn)
	base := int(harness.SeedFor(151) % (1 << 30))
	reps := harness.Scale(6, 60)
	var shapes [][]int
	for a := 0; a < 8; a++ {
		for b := 0; b < 8; b++ {
			shapes = append(shapes, []int{a, b})
			for c := 0; c < 8; c++ {
				shapes = append(shapes, []int{a, b, c})
			}
		}
	}
	lo, hi := harness.ShardRange(int64(len(shapes)))
	var n int64
	for si := lo; si < hi; si++ {
		shape := shapes[si]
		for r := 0; r < reps; r++ {
			g := rapid.Custom(func(rt *rapid.T) c15Case {
				x := m.XR{Sender: gen.U32(rt, "sender")}
				for _, k := range shape {
					x.Blocks = append(x.Blocks, gen.XRBlock(rt, k+1)) // 1..7 typed, 8 => unknown
				}
				return c15Case{X: x}
			})
			c := g.Example(base + int(si)*256 + r)
			subC15.Check(t, c)
			n++
		}
	}
	harness.Eval(subC15.Name+"/shapes", n)
	harness.NonTrivialDistinct(hi - lo)
	harness.Exhaustive(subC15.Name+"/shapes", fmt.Sprintf("all 8^2 + 8^3 = 576 ordered pairs and triples of block kinds, %d drawn instances each", reps))
}
