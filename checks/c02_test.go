package checks

import (
	"bytes"
	"fmt"
	"testing"

	"github.com/pion/rtcp"
	"pgregory.net/rapid"

	"verif/conv"
	"verif/gen"
	"verif/harness"
	m "verif/refmodel"
)

// expectDecoded is what decoding Marshal(v) must yield: v up to the three documented
// quantisations (REMB 18-bit mantissa, TWCC 250us ticks, RR extensions zero-padded).
func expectDecoded(p m.Packet, d harness.Dialect) m.Packet {
	switch p.Kind {
	case m.KRR:
		return expectAfterRoundTrip(p)
	case m.KREMB:
		v := *p.REMB
		e, mt, _ := m.REMBEncode(v.Bitrate)
		v.Bitrate = m.REMBValue(e, mt, d.Ref())
		return m.Packet{Kind: m.KREMB, REMB: &v}
	case m.KTWCC:
		v := *p.TWCC
		v.Deltas = append([]m.TWCCDelta(nil), v.Deltas...)
		for i := range v.Deltas {
			v.Deltas[i].Micros -= v.Deltas[i].Micros % 250 // truncation toward zero: |decoded-original| < 250
		}
		return m.Packet{Kind: m.KTWCC, TWCC: &v}
	case m.KCOMPOUND:
		out := m.Packet{Kind: m.KCOMPOUND}
		for _, x := range p.Compound {
			out.Compound = append(out.Compound, expectDecoded(x, d))
		}
		return out
	}
	return p
}

// sliRawFix: under the listed sli-pt-205 finding pion returns its own SLI output as RawPacket
// when it travels through the datagram path (which CompoundPacket.Unmarshal uses).
func sliRawFix(want, got m.Packet, d harness.Dialect) m.Packet {
	if !d.Has("sli-pt-205") || want.Kind != m.KCOMPOUND || got.Kind != m.KCOMPOUND || len(want.Compound) != len(got.Compound) {
		return got
	}
	out := m.Packet{Kind: m.KCOMPOUND, Compound: append([]m.Packet(nil), got.Compound...)}
	for i := range out.Compound {
		if want.Compound[i].Kind == m.KSLI && out.Compound[i].Kind == m.KRAW {
			if e, err := m.Encode(want.Compound[i], &m.EncOpts{D: d.Ref()}); err == nil && bytes.Equal(e.B, out.Compound[i].RAW) {
				out.Compound[i] = want.Compound[i]
			}
		}
	}
	return out
}

// rembZeroMantissa: the value contains a REMB whose encoding has mantissa 0 (bitrate < 1).
func rembZeroMantissa(p m.Packet) bool {
	for _, x := range leafKindsOf(p) {
		if x.Kind == m.KREMB {
			if _, mt, err := m.REMBEncode(x.REMB.Bitrate); err == nil && mt == 0 {
				return true
			}
		}
	}
	return false
}

// roundTripOne checks one value through its own decoder and through the datagram decoder.
func roundTripOne(p m.Packet, d harness.Dialect) error {
	if d.Has("ccfb-one-metric-block") && ccfbHasOneMetricBlock(p) {
		return nil // input class excluded by a listed finding (counted by the caller)
	}
	pk := conv.ToPion(p)
	b, err := pk.Marshal()
	if err != nil {
		return fmt.Errorf("Marshal rejected a well-formed %s: %v\nvalue: %s", p.Kind, err, conv.JSON(p))
	}
	want := expectDecoded(p, d)
	wrapRejected := d.Has("ccfb-rejects-seq-wrap") && ccfbSpansWrap(p)

	// (i) the type's own decoder
	got, derr := decodeDirect(p.Kind, b)
	switch {
	case wrapRejected:
		if derr == nil {
			return fmt.Errorf("dialect ccfb-rejects-seq-wrap expected a decode error")
		}
	case derr != nil:
		return fmt.Errorf("%s: own decoder rejects the type's own Marshal output: %v\nbytes: %s\nvalue: %s", p.Kind, derr, hexs(b), conv.JSON(p))
	case !conv.Equal(want, sliRawFix(want, got, d)):
		return fmt.Errorf("%s: own decoder round trip differs\n%s\nbytes: %s", p.Kind, conv.Diff(want, got), hexs(b))
	}

	// (ii) the datagram decoder: same concrete type, same value
	ps, uerr := decodeDatagram(b)
	if p.Kind == m.KCOMPOUND && wrapRejected {
		if uerr == nil {
			return fmt.Errorf("dialect ccfb-rejects-seq-wrap expected a datagram decode error")
		}
	} else if p.Kind == m.KCOMPOUND {
		if uerr != nil {
			return fmt.Errorf("rtcp.Unmarshal rejects a marshalled compound: %v", uerr)
		}
		gl, cerr := conv.FromPionList(ps)
		if cerr != nil {
			return cerr
		}
		for i := range gl {
			if d.Has("sli-pt-205") && i < len(want.Compound) && want.Compound[i].Kind == m.KSLI && gl[i].Kind == m.KRAW {
				gl[i] = want.Compound[i] // pion returns its own SLI output as RawPacket (listed)
			}
		}
		if !conv.EqualList(want.Compound, gl) {
			return fmt.Errorf("compound: datagram round trip differs\n%s", conv.Diff(want, m.Packet{Kind: m.KCOMPOUND, Compound: gl}))
		}
	} else {
		switch {
		case wrapRejected:
			if uerr == nil {
				return fmt.Errorf("dialect ccfb-rejects-seq-wrap expected a datagram decode error")
			}
		case uerr != nil:
			return fmt.Errorf("%s: rtcp.Unmarshal rejects the type's own Marshal output: %v\nbytes: %s\nvalue: %s", p.Kind, uerr, hexs(b), conv.JSON(p))
		case len(ps) != 1:
			return fmt.Errorf("%s: rtcp.Unmarshal returned %d packets for one marshalled packet", p.Kind, len(ps))
		case d.Has("sli-pt-205") && p.Kind == m.KSLI:
			raw, ok := ps[0].(*rtcp.RawPacket)
			if !ok || !bytes.Equal([]byte(*raw), b) {
				return fmt.Errorf("dialect sli-pt-205 expected the SLI bytes back as *RawPacket, got %s", typeName(ps[0]))
			}
		default:
			if tn := typeName(ps[0]); tn != conv.GoType(p.Kind) {
				return fmt.Errorf("%s: rtcp.Unmarshal returned %s for the output of %s.Marshal\nbytes: %s", p.Kind, tn, conv.GoType(p.Kind), hexs(b))
			}
			g2, cerr := conv.FromPion(ps[0])
			if cerr != nil {
				return cerr
			}
			if !conv.Equal(want, g2) {
				return fmt.Errorf("%s: datagram round trip differs\n%s\nbytes: %s", p.Kind, conv.Diff(want, g2), hexs(b))
			}
		}
	}

	// (iv) re-marshalling the decoded packet reproduces the bytes
	if derr == nil && !wrapRejected && !(d.Has("remb-zero-mantissa") && rembZeroMantissa(p)) {
		recv := conv.New(p.Kind)
		if err := recv.Unmarshal(append([]byte(nil), b...)); err != nil {
			return fmt.Errorf("%s: second decode failed: %v", p.Kind, err)
		}
		b2, err := recv.Marshal()
		if err != nil {
			return fmt.Errorf("%s: re-marshal of the decoded packet failed: %v", p.Kind, err)
		}
		if !bytes.Equal(b, b2) {
			return fmt.Errorf("%s: re-marshal of the decoded packet differs at octet %d\nfirst:  %s\nsecond: %s", p.Kind, firstDiff(b, b2, nil), hexs(b), hexs(b2))
		}
	}
	return nil
}

var subC02One = harness.NewSub("c02-roundtrip-value", func(c valCase, d harness.Dialect) error {
	return roundTripOne(c.P, d)
})

var subC02List = harness.NewSub("c02-roundtrip-list", func(c listCase, d harness.Dialect) error {
	for _, p := range c.Ps {
		if d.Has("ccfb-one-metric-block") && ccfbHasOneMetricBlock(p) {
			return nil
		}
	}
	var pks []rtcp.Packet
	for _, p := range c.Ps {
		pks = append(pks, conv.ToPion(p))
	}
	b, err := rtcp.Marshal(pks)
	if err != nil {
		return fmt.Errorf("rtcp.Marshal(list of %d well-formed packets): %v", len(c.Ps), err)
	}
	anyWrap := false
	var want []m.Packet
	for _, p := range c.Ps {
		if d.Has("ccfb-rejects-seq-wrap") && ccfbSpansWrap(p) {
			anyWrap = true
		}
		want = append(want, leafKindsOf(expectDecoded(p, d))...)
	}
	ps, uerr := decodeDatagram(b)
	if anyWrap {
		if uerr == nil {
			return fmt.Errorf("dialect ccfb-rejects-seq-wrap expected a datagram decode error")
		}
		return nil
	}
	if uerr != nil {
		return fmt.Errorf("rtcp.Unmarshal(rtcp.Marshal(list)) failed: %v\nlist: %s", uerr, conv.JSON(c.Ps))
	}
	if len(ps) != len(want) {
		return fmt.Errorf("rtcp.Unmarshal returned %d packets, want %d", len(ps), len(want))
	}
	for i := range ps {
		if d.Has("sli-pt-205") && want[i].Kind == m.KSLI {
			if _, ok := ps[i].(*rtcp.RawPacket); ok {
				continue
			}
		}
		if tn := typeName(ps[i]); tn != conv.GoType(want[i].Kind) {
			return fmt.Errorf("list element %d: type %s, want %s", i, tn, conv.GoType(want[i].Kind))
		}
		g, cerr := conv.FromPion(ps[i])
		if cerr != nil {
			return cerr
		}
		if !conv.Equal(want[i], g) {
			return fmt.Errorf("list element %d (%s) differs after the round trip\n%s", i, want[i].Kind, conv.Diff(want[i], g))
		}
	}
	for _, p := range c.Ps {
		if d.Has("remb-zero-mantissa") && rembZeroMantissa(p) {
			return nil
		}
	}
	b2, err := rtcp.Marshal(ps)
	if err != nil {
		return fmt.Errorf("re-marshal of the decoded list failed: %v", err)
	}
	if !bytes.Equal(b, b2) {
		return fmt.Errorf("re-marshal of the decoded list differs at octet %d", firstDiff(b, b2, nil))
	}
	return nil
})

// genC02Value: D plus sub-tick TWCC deltas (the documented 250us quantisation).
func genC02Value(t *rapid.T) m.Packet {
	p := genValue(t)
	if p.Kind == m.KTWCC && rapid.IntRange(0, 9).Draw(t, "subtick?") == 0 {
		for i := range p.TWCC.Deltas {
			r := int64(rapid.IntRange(0, 249).Draw(t, "subtick"))
			if p.TWCC.Deltas[i].Micros < 0 {
				p.TWCC.Deltas[i].Micros -= r
			} else {
				p.TWCC.Deltas[i].Micros += r
			}
		}
	}
	return p
}

// c02MaxSizeValues: well-formed values whose encoding is exactly the largest packet the
// 16-bit length field can describe (65536 words).
func c02MaxSizeValues() []m.Packet {
	unknown := m.XRBlock{BT: 99, TypeSpecific: 1, Body: make([]byte, 262144-8-4)}
	maxReports := make([]m.RBlock, 31)
	for i := range maxReports {
		maxReports[i] = m.RBlock{SSRC: uint32(100 + i), Fraction: uint8(i), Lost: uint32(i) << 12, LastSeq: uint32(i), Jitter: 5, LSR: 6, DLSR: 7}
	}
	// CCFB: 12 + sum(8 + 2n) octets; 7 x 16384 + 16346 metric blocks = 262144 octets
	ccfb := &m.CCFB{Sender: 1, Timestamp: 2}
	for b := 0; b < 8; b++ {
		n := 16384
		if b == 7 {
			n = 16346
		}
		ms := make([]m.CCFBMetric, n)
		for i := range ms {
			ms[i] = m.CCFBMetric{Received: true, ECN: uint8(i % 4), ATO: uint16(i % 0x2000)}
		}
		ccfb.Blocks = append(ccfb.Blocks, m.CCFBBlock{SSRC: uint32(b + 1), BeginSeq: 0, Metrics: ms})
	}
	// SDES: one chunk of 1019 items of 255 octets and one of 250 = 262144 octets
	chunk := m.SDESChunk{Source: 7}
	for i := 0; i < 1020; i++ {
		n := 255
		if i == 1019 {
			n = 250
		}
		txt := make([]byte, n)
		for j := range txt {
			txt[j] = byte('a' + (i+j)%26)
		}
		typ := uint8(2)
		if i == 0 {
			typ = 1
		}
		chunk.Items = append(chunk.Items, m.SDESItem{Type: typ, Text: txt})
	}
	// FIR: 12 + 8n octets, n = 32766 is the largest that fits (262140 octets)
	fir := &m.FIR{Sender: 1, Media: 2, Entries: make([]m.FIREntry, 32766)}
	for i := range fir.Entries {
		fir.Entries[i] = m.FIREntry{SSRC: uint32(i), Seq: uint8(i)}
	}
	// TWCC: 20 + 2n octets of chunks; zero-length runs cover no status, the last chunk the only one
	tw := &m.TWCC{Sender: 1, Media: 2, StatusCount: 1, Chunks: make([]m.TWCCChunk, 131062)}
	tw.Chunks[131061] = m.TWCCChunk{Symbol: 0, Run: 1}
	gen.FixTWCCHeader(tw, false)
	// ... and with a receive delta behind more than 65535 chunks (262143 octets + 1 of padding)
	tw2 := &m.TWCC{Sender: 1, Media: 2, StatusCount: 1, Chunks: make([]m.TWCCChunk, 131061), Deltas: []m.TWCCDelta{{Micros: 250 * 77}}}
	tw2.Chunks[131060] = m.TWCCChunk{Symbol: m.SymSmall, Run: 1}
	gen.FixTWCCHeader(tw2, true)
	// SDES: a second chunk behind one of more than 64 KiB
	bigChunk := m.SDESChunk{Source: 8}
	for i := 0; i < 600; i++ {
		txt := make([]byte, 255)
		for j := range txt {
			txt[j] = byte('A' + (i+j)%26)
		}
		bigChunk.Items = append(bigChunk.Items, m.SDESItem{Type: 2, Text: txt})
	}
	twoChunks := &m.SDES{Chunks: []m.SDESChunk{bigChunk, {Source: 9, Items: []m.SDESItem{{Type: 1, Text: []byte("second")}}}}}
	// the same limit reached with as many elements as possible instead of as large ones
	manyBlocks := &m.XR{Sender: 2}
	for i := 0; i < 65534; i++ { // 65534 empty unknown blocks of one word each = 262144 octets
		manyBlocks.Blocks = append(manyBlocks.Blocks, m.XRBlock{BT: uint8(100 + i%100), TypeSpecific: uint8(i)})
	}
	rle := m.XRBlock{BT: m.XRLossRLE, T: 3, SSRC: 5, BeginSeq: 1, EndSeq: 2, Chunks: make([]uint16, 131062)} // 12 + 2n octets
	for i := range rle.Chunks {
		rle.Chunks[i] = uint16(i*7 + 1)
	}
	dlrr := m.XRBlock{BT: m.XRDLRR}
	for i := 0; i < 21844; i++ { // 4 + 12n octets: 262140 with the header
		dlrr.Subs = append(dlrr.Subs, m.DLRRSub{SSRC: uint32(i), LastRR: uint32(i) * 3, DLRR: uint32(i) * 5})
	}
	emptyBlocks := &m.CCFB{Sender: 1, Timestamp: 9}
	for i := 0; i < 32766; i++ { // 12 + 8n octets: 262140
		emptyBlocks.Blocks = append(emptyBlocks.Blocks, m.CCFBBlock{SSRC: uint32(i), BeginSeq: uint16(i)})
	}
	// just above 64 KiB: a size or offset kept in 16 bits comes out small again here (at the
	// maximum it only loses its top bits), with content on both sides of the 65536th octet
	just := 65536 + 40
	firJust := &m.FIR{Sender: 3, Media: 4, Entries: make([]m.FIREntry, 8192+3)} // 12 + 8n = 65572
	for i := range firJust.Entries {
		firJust.Entries[i] = m.FIREntry{SSRC: 0x90000 + uint32(i), Seq: uint8(i * 3)}
	}
	ccfbJust := &m.CCFB{Sender: 1, Timestamp: 5}
	for b := 0; b < 3; b++ { // 12 + 2*(8+2*16384) + (8+2*10) = 65592
		n := 16384
		if b == 2 {
			n = 10
		}
		ms := make([]m.CCFBMetric, n)
		for i := range ms {
			ms[i] = m.CCFBMetric{Received: i%3 != 0, ECN: uint8(i % 4), ATO: uint16(i % 0x2000)}
			if !ms[i].Received {
				ms[i] = m.CCFBMetric{}
			}
		}
		ccfbJust.Blocks = append(ccfbJust.Blocks, m.CCFBBlock{SSRC: uint32(0x70 + b), BeginSeq: 100, Metrics: ms})
	}
	sdesJust := &m.SDES{}
	{
		c1 := m.SDESChunk{Source: 21}
		for i := 0; i < 255; i++ { // 4 + 255*257 + terminator: 65540 octets
			txt := make([]byte, 255)
			for j := range txt {
				txt[j] = byte('a' + (i*7+j)%26)
			}
			c1.Items = append(c1.Items, m.SDESItem{Type: 2, Text: txt})
		}
		sdesJust.Chunks = []m.SDESChunk{c1, {Source: 22, Items: []m.SDESItem{{Type: 1, Text: []byte("behind")}}}}
	}
	twJust := &m.TWCC{Sender: 1, Media: 2, StatusCount: 3, Chunks: make([]m.TWCCChunk, 32770),
		Deltas: []m.TWCCDelta{{Micros: 250}, {Large: true, Micros: -250 * 300}, {Micros: 250 * 200}}} // 20 + 65540 + 4
	twJust.Chunks[32767] = m.TWCCChunk{Symbol: m.SymSmall, Run: 1}
	twJust.Chunks[32768] = m.TWCCChunk{Symbol: m.SymLarge, Run: 1}
	twJust.Chunks[32769] = m.TWCCChunk{Symbol: m.SymSmall, Run: 1}
	gen.FixTWCCHeader(twJust, true)
	xrJust := &m.XR{Sender: 6, Blocks: []m.XRBlock{
		{BT: 77, TypeSpecific: 9, Body: make([]byte, 65536)},
		{BT: m.XRRRT, NTP: 0x0102030405060708},
		{BT: m.XRDLRR, Subs: []m.DLRRSub{{SSRC: 1, LastRR: 2, DLRR: 3}}},
	}}
	// a compound whose last member is exactly 65536 octets long: what remains of the datagram
	// after the first two members is 2^16
	app64k := &m.APP{Subtype: 1, SSRC: 3, Name: []byte("64kB"), Data: make([]byte, 65523)}
	for i := range app64k.Data {
		app64k.Data[i] = byte(i * 11)
	}
	compound64k := []m.Packet{
		{Kind: m.KRR, RR: &m.RR{SSRC: 1}},
		{Kind: m.KSDES, SDES: &m.SDES{Chunks: []m.SDESChunk{{Source: 1, Items: []m.SDESItem{{Type: 1, Text: []byte("cname")}}}}}},
		{Kind: m.KAPP, APP: app64k},
	}
	return []m.Packet{
		{Kind: m.KCOMPOUND, Compound: compound64k},
		{Kind: m.KSR, SR: &m.SR{SSRC: 1, NTP: 2, RTP: 3, Packets: 4, Octets: 5, Reports: maxReports, Ext: make([]byte, just-28-31*24)}},
		{Kind: m.KRR, RR: &m.RR{SSRC: 1, Reports: maxReports, Ext: make([]byte, just-8-31*24)}},
		{Kind: m.KFIR, FIR: firJust},
		{Kind: m.KCCFB, CCFB: ccfbJust},
		{Kind: m.KSDES, SDES: sdesJust},
		{Kind: m.KTWCC, TWCC: twJust},
		{Kind: m.KXR, XR: xrJust},
		{Kind: m.KXR, XR: manyBlocks},
		{Kind: m.KXR, XR: &m.XR{Sender: 2, Blocks: []m.XRBlock{rle}}},
		{Kind: m.KXR, XR: &m.XR{Sender: 2, Blocks: []m.XRBlock{dlrr}}},
		{Kind: m.KCCFB, CCFB: emptyBlocks},
		{Kind: m.KCCFB, CCFB: ccfb},
		{Kind: m.KSDES, SDES: &m.SDES{Chunks: []m.SDESChunk{chunk}}},
		{Kind: m.KFIR, FIR: fir},
		{Kind: m.KTWCC, TWCC: tw},
		{Kind: m.KTWCC, TWCC: tw2},
		{Kind: m.KSDES, SDES: twoChunks},
		{Kind: m.KAPP, APP: &m.APP{Subtype: 3, SSRC: 9, Name: []byte("abcd"), Data: make([]byte, 65523)}},
		{Kind: m.KSR, SR: &m.SR{SSRC: 1, Ext: make([]byte, 262144-28)}},
		{Kind: m.KRR, RR: &m.RR{SSRC: 1, Ext: make([]byte, 262144-8)}},
		{Kind: m.KSR, SR: &m.SR{SSRC: 1, Reports: maxReports, Ext: make([]byte, 262144-28-31*24)}},
		{Kind: m.KRR, RR: &m.RR{SSRC: 1, Reports: maxReports, Ext: make([]byte, 262144-8-31*24)}},
		{Kind: m.KXR, XR: &m.XR{Sender: 1, Blocks: []m.XRBlock{unknown}}},
		{Kind: m.KRAW, RAW: append([]byte{0x80, 192, 0xFF, 0xFF}, make([]byte, 262140)...)},
	}
}

func TestC02(t *testing.T) {
	defer harness.Uncaught(t)
	if harness.Cfg.Shard == 0 {
		for _, p := range c02MaxSizeValues() {
			subC02One.Check(t, valCase{P: p})
			harness.Eval(subC02One.Name+"/max-size", 1)
			harness.Class("max-size:"+string(p.Kind), 1)
			harness.NonTrivialDistinct(1)
		}
	}
	if harness.Cfg.Shard == 0 {
		// a list through the datagram decoder whose tail is exactly 2^16 octets
		for _, p := range c02MaxSizeValues() {
			if p.Kind == m.KCOMPOUND {
				subC02List.Check(t, listCase{Ps: []m.Packet{{Kind: m.KPLI, PLI: &m.FB{Sender: 1, Media: 2}}, p.Compound[2]}})
				harness.Eval(subC02List.Name+"/max-size", 1)
				harness.NonTrivialDistinct(1)
			}
		}
	}
	harness.RapidCheck(t, harness.Scale(5000, 40000), 2, func(rt *rapid.T) {
		c := valCase{P: genC02Value(rt)}
		harness.Record(subC02One.Name, c, valueNonTrivial(c.P), classesOf(c.P)...)
		subC02One.Check(rt, c)
	})
	harness.RapidCheck(t, harness.Scale(800, 6000), 22, func(rt *rapid.T) {
		n := gen.Len(rt, 1, 12, "listlen")
		if harness.Thorough() && rapid.IntRange(0, 9).Draw(rt, "long?") == 0 {
			n = rapid.IntRange(12, 40).Draw(rt, "listlen.long")
		}
		var c listCase
		for i := 0; i < n; i++ {
			c.Ps = append(c.Ps, genC02Value(rt))
		}
		harness.Record(subC02List.Name, c, len(c.Ps) >= 2, "list")
		subC02List.Check(rt, c)
	})
}
