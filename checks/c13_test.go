package checks

import (
	"fmt"
	"reflect"
	"testing"

	"github.com/pion/rtcp"
	"pgregory.net/rapid"

	"verif/conv"
	"verif/gen"
	"verif/harness"
	m "verif/refmodel"
)

// C13: decoded TWCC feedback is internally consistent and chunking-invariant.

type c13Bytes struct {
	B m.Bytes
}

// (A) anything accepted must agree with the independent expansion of the raw bytes.
var subC13A = harness.NewSub("c13-accepted-agrees-with-independent-expansion", func(c c13Bytes, _ harness.Dialect) error {
	for _, path := range []string{"direct", "datagram"} {
		var got *rtcp.TransportLayerCC
		in := append([]byte(nil), c.B...)
		if path == "direct" {
			got = new(rtcp.TransportLayerCC)
			if err := got.Unmarshal(in); err != nil {
				continue
			}
		} else {
			ps, err := rtcp.Unmarshal(in)
			if err != nil || len(ps) != 1 {
				continue
			}
			var ok bool
			if got, ok = ps[0].(*rtcp.TransportLayerCC); !ok {
				continue
			}
		}
		want, rerr := m.DecodeTWCC(c.B)
		if rerr != nil {
			return fmt.Errorf("%s path accepted a TWCC packet that the independent expansion rejects (%v): the declared length, the chunks or the deltas do not fit inside the bytes given\ninput: %s", path, rerr, hexs(c.B))
		}
		gm, cerr := conv.FromPion(got)
		if cerr != nil {
			return fmt.Errorf("%s path: %v", path, cerr)
		}
		g := gm.TWCC
		if g.Sender != want.Sender || g.Media != want.Media || g.BaseSeq != want.BaseSeq || g.StatusCount != want.StatusCount || g.RefTime != want.RefTime ||
			g.FbCount != want.FbCount || g.HdrLength != want.HdrLength || g.Padding != want.Padding {
			return fmt.Errorf("%s path: fixed fields differ from the raw bytes\n%s\ninput: %s", path, conv.Diff(m.Packet{Kind: m.KTWCC, TWCC: want}, gm), hexs(c.B))
		}
		if !reflect.DeepEqual(normChunks(g.Chunks), normChunks(want.Chunks)) {
			return fmt.Errorf("%s path: PacketChunks differ from the chunk words in the packet\n got %s\nwant %s\ninput: %s", path, conv.JSON(g.Chunks), conv.JSON(want.Chunks), hexs(c.B))
		}
		if len(g.Deltas) != len(want.Deltas) {
			return fmt.Errorf("%s path: %d receive deltas, but the status chunks mark %d packets as received (run lengths clipped to the status count %d)\ninput: %s", path, len(g.Deltas), len(want.Deltas), want.StatusCount, hexs(c.B))
		}
		for i := range g.Deltas {
			if g.Deltas[i] != want.Deltas[i] {
				return fmt.Errorf("%s path: receive delta %d is %+v, the wire holds %+v (size class from the status symbol, value = 250us x signed wire value at the position following the chunks)\ninput: %s", path, i, g.Deltas[i], want.Deltas[i], hexs(c.B))
			}
		}
	}
	return nil
})

func normChunks(cs []m.TWCCChunk) []m.TWCCChunk {
	out := make([]m.TWCCChunk, len(cs))
	for i, c := range cs {
		out[i] = c
		if len(c.Symbols) == 0 {
			out[i].Symbols = nil
		}
	}
	if len(out) == 0 {
		return nil
	}
	return out
}

// (B) chunking invariance
type c13Seq struct {
	Statuses []uint16
	Ticks    []int64
	C1, C2   []m.TWCCChunk
}

func buildFromSeq(s c13Seq, chunks []m.TWCCChunk) *m.TWCC {
	v := &m.TWCC{Sender: 0x11223344, Media: 0x55667788, BaseSeq: 65530, StatusCount: uint16(len(s.Statuses)), RefTime: 0xABCDEF, FbCount: 7, Chunks: chunks}
	k := 0
	for _, st := range s.Statuses {
		switch st {
		case m.SymSmall:
			v.Deltas = append(v.Deltas, m.TWCCDelta{Micros: 250 * s.Ticks[k]})
			k++
		case m.SymLarge:
			v.Deltas = append(v.Deltas, m.TWCCDelta{Large: true, Micros: 250 * s.Ticks[k]})
			k++
		}
	}
	gen.FixTWCCHeader(v, len(s.Statuses)%2 == 1)
	return v
}

func decodeChunking(s c13Seq, chunks []m.TWCCChunk, which string) (*m.TWCC, error) {
	v := buildFromSeq(s, chunks)
	e, err := m.Encode(m.Packet{Kind: m.KTWCC, TWCC: v}, nil)
	if err != nil {
		return nil, fmt.Errorf("GENERATOR BUG: reference cannot encode chunking %s: %v", which, err)
	}
	got, derr := decodeDirect(m.KTWCC, e.B)
	if derr != nil {
		return nil, fmt.Errorf("chunking %s of a valid status sequence rejected: %v\nchunks: %s\nbytes: %s", which, derr, conv.JSON(chunks), hexs(e.B))
	}
	ps, uerr := decodeDatagram(e.B)
	if uerr != nil || len(ps) != 1 {
		return nil, fmt.Errorf("chunking %s rejected by rtcp.Unmarshal: %v", which, uerr)
	}
	g2, _ := conv.FromPion(ps[0])
	if !conv.Equal(got, g2) {
		return nil, fmt.Errorf("chunking %s: direct and datagram decode differ\n%s", which, conv.Diff(got, g2))
	}
	// statuses: expansion of the decoded chunks clipped to the decoded status count
	exp := m.ExpandChunks(got.TWCC.Chunks, int(got.TWCC.StatusCount), true)
	if !eq16(exp, s.Statuses) {
		return nil, fmt.Errorf("chunking %s: decoded chunks expand to statuses %v, generated %v\nchunks: %s", which, exp, s.Statuses, conv.JSON(chunks))
	}
	want := buildFromSeq(s, chunks)
	if len(got.TWCC.Deltas) != len(want.Deltas) {
		return nil, fmt.Errorf("chunking %s: %d deltas decoded, %d generated\nchunks: %s\nbytes: %s", which, len(got.TWCC.Deltas), len(want.Deltas), conv.JSON(chunks), hexs(e.B))
	}
	for i := range want.Deltas {
		if got.TWCC.Deltas[i] != want.Deltas[i] {
			return nil, fmt.Errorf("chunking %s: delta %d decoded as %+v, generated %+v\nchunks: %s\nbytes: %s", which, i, got.TWCC.Deltas[i], want.Deltas[i], conv.JSON(chunks), hexs(e.B))
		}
	}
	return got.TWCC, nil
}

var subC13B = harness.NewSub("c13-chunking-invariance", func(c c13Seq, _ harness.Dialect) error {
	a, err := decodeChunking(c, c.C1, "1")
	if err != nil {
		return err
	}
	b, err := decodeChunking(c, c.C2, "2")
	if err != nil {
		return err
	}
	if !reflect.DeepEqual(a.Deltas, b.Deltas) {
		return fmt.Errorf("two chunkings of the same status sequence decode to different deltas")
	}
	return nil
})

func genTWCCBytes(t *rapid.T) (string, []byte) {
	enc := func(v *m.TWCC) []byte {
		e, err := m.Encode(m.Packet{Kind: m.KTWCC, TWCC: v}, nil)
		if err != nil {
			panic(err)
		}
		return e.B
	}
	put16 := func(b []byte, off int, v uint16) {
		if off+1 < len(b) {
			b[off], b[off+1] = byte(v>>8), byte(v)
		}
	}
	switch rapid.IntRange(0, 9).Draw(t, "twccbytes.kind") {
	case 9:
		// a long status sequence (count up to 65535) whose final run may be longer than what remains
		s, c1, _ := gen.LongTWCC(t)
		return "valid-long-sequence", enc(gen.BuildTWCC(t, s, c1))
	case 8:
		// a length field far larger than the buffer (16-bit arithmetic on it must not wrap)
		b := enc(gen.TWCC(t))
		l := int(b[2])<<8 | int(b[3])
		put16(b, 2, uint16(rapid.SampledFrom([]int{16383, 16384, 16384 + l, 16385 + l, 32768 + l, 49152 + l, 65535}).Draw(t, "hostile.length")))
		return "length-field-wraps-16-bit", b
	case 0:
		s := gen.Statuses(t, 300)
		return "valid", enc(gen.BuildTWCC(t, s, gen.Chunking(t, s.Statuses, true)))
	case 1:
		b := enc(gen.TWCC(t))
		c := int(b[14])<<8 | int(b[15])
		d := rapid.SampledFrom([]int{-14, -7, -2, -1, 1, 2, 6, 7, 8, 13, 14, 15}).Draw(t, "dcount")
		if c+d < 0 {
			d = -c
		}
		put16(b, 14, uint16(c+d))
		return "status-count-shifted", b
	case 2, 3:
		// random chunk words, then exactly the delta octets they call for (or one short / some extra)
		count := rapid.OneOf(rapid.IntRange(0, 40), rapid.IntRange(0, 400)).Draw(t, "count")
		b := []byte{0x8F, 205, 0, 0, 1, 2, 3, 4, 5, 6, 7, 8, 0, 9, byte(count >> 8), byte(count), 0x12, 0x34, 0x56, 0x78}
		processed, need := 0, 0
		for processed < count {
			var w uint16
			switch rapid.IntRange(0, 3).Draw(t, "word.kind") {
			case 0:
				w = uint16(rapid.IntRange(0, 3).Draw(t, "rl.sym"))<<13 | uint16(rapid.OneOf(rapid.IntRange(0, 20), rapid.IntRange(0, 8191)).Draw(t, "rl.run"))
			case 1:
				w = 0x8000 | uint16(rapid.IntRange(0, 0x3FFF).Draw(t, "v1"))
			case 2:
				w = 0xC000 | uint16(rapid.IntRange(0, 0x3FFF).Draw(t, "v2"))
			default:
				w = gen.U16(t, "word")
			}
			ck := m.UnpackChunk(w)
			b = append(b, byte(w>>8), byte(w))
			if !ck.Vector {
				n := int(ck.Run)
				if n > count-processed {
					n = count - processed
				}
				if ck.Symbol == 1 {
					need += n
				} else if ck.Symbol == 2 {
					need += 2 * n
				}
				processed += n
				if ck.Run == 0 && len(b) > 4000 {
					break
				}
			} else {
				for _, s := range ck.Symbols {
					if s == 1 {
						need++
					} else if s == 2 {
						need += 2
					}
				}
				processed += len(ck.Symbols)
			}
			if len(b) > 6000 {
				break
			}
		}
		adj := rapid.SampledFrom([]int{0, 0, 0, 0, -1, -2, 1, 3}).Draw(t, "delta.adj")
		if need+adj < 0 {
			adj = 0
		}
		b = append(b, gen.BytesN(t, need+adj, "deltas")...)
		for len(b)%4 != 0 {
			b = append(b, 0)
		}
		put16(b, 2, uint16(len(b)/4-1))
		return "random-chunks", b
	case 4:
		b := enc(gen.TWCC(t))
		if len(b) >= 24 {
			off := 20 + 2*rapid.IntRange(0, (len(b)-22)/2).Draw(t, "chunk.off")
			put16(b, off, rapid.SampledFrom([]uint16{0, 1, 0x1FFF, 0x2001, 0x3FFF, 0x4002, 0x5FFF, 0x6003, 0x8000, 0xBFFF, 0xC000, 0xD555, 0xEAAA, 0xFFFF}).Draw(t, "hostile.word"))
		}
		return "chunk-replaced", b
	case 5:
		return "status-counter-wrap", gen.TWCCWrap(t, rapid.SampledFrom([]int{24, 64, 256, 1200}).Draw(t, "total"))
	case 6:
		b := enc(gen.TWCC(t))
		l := int(b[2])<<8 | int(b[3])
		if l > 4 {
			put16(b, 2, uint16(l-1))
		}
		return "declared-length-one-word-short", b
	default:
		b := enc(gen.TWCC(t))
		return "surplus-octets", append(b, gen.BytesN(t, 4*rapid.IntRange(1, 3).Draw(t, "extra"), "extra")...)
	}
}

// enumerateChunkings lists every valid chunking of a short status sequence (len < 7), as
// described in DESIGN.md C13: run-length chunks over constant runs (any split), and as the
// last chunk a 1-bit vector (no large delta), a 2-bit vector, or an over-long run.
func enumerateChunkings(st []uint16) [][]m.TWCCChunk {
	var out [][]m.TWCCChunk
	var rec func(i int, cur []m.TWCCChunk)
	rec = func(i int, cur []m.TWCCChunk) {
		if i == len(st) {
			out = append(out, append([]m.TWCCChunk(nil), cur...))
			return
		}
		run := 1
		for i+run < len(st) && st[i+run] == st[i] {
			run++
		}
		for r := 1; r <= run; r++ {
			rec(i+r, append(cur, m.TWCCChunk{Symbol: st[i], Run: uint16(r)}))
			if i+r == len(st) {
				for _, over := range []uint16{uint16(r) + 1, 8191} {
					out = append(out, append(append([]m.TWCCChunk(nil), cur...), m.TWCCChunk{Symbol: st[i], Run: over}))
				}
			}
		}
		// a vector chunk swallows everything that remains (fewer than 7 symbols)
		rem := st[i:]
		oneBit := true
		for _, s := range rem {
			if s == m.SymLarge {
				oneBit = false
			}
		}
		two := m.TWCCChunk{Vector: true, TwoBit: true, Symbols: make([]uint16, 7)}
		copy(two.Symbols, rem)
		out = append(out, append(append([]m.TWCCChunk(nil), cur...), two))
		if oneBit {
			one := m.TWCCChunk{Vector: true, Symbols: make([]uint16, 14)}
			copy(one.Symbols, rem)
			out = append(out, append(append([]m.TWCCChunk(nil), cur...), one))
		}
	}
	rec(0, nil)
	return out
}

func TestC13(t *testing.T) {
	defer harness.Uncaught(t)
	// (A)
	harness.RapidCheck(t, harness.Scale(8000, 60000), 13, func(rt *rapid.T) {
		kind, b := genTWCCBytes(rt)
		c := c13Bytes{B: b}
		var p rtcp.TransportLayerCC
		err := harness.Guard(func() error { return p.Unmarshal(append([]byte(nil), b...)) })
		harness.Eval(subC13A.Name, 1)
		if err == nil {
			harness.Class("A-accepted:"+kind, 1)
			kinds := map[string]bool{}
			for _, ch := range p.PacketChunks {
				kinds[fmt.Sprintf("%T", ch)] = true
			}
			want, _ := m.DecodeTWCC(b)
			clipped := false
			if want != nil && len(want.Chunks) > 0 {
				full := 0
				for _, ch := range want.Chunks {
					if ch.Vector {
						full += len(ch.Symbols)
					} else {
						full += int(ch.Run)
					}
				}
				clipped = full > int(want.StatusCount)
			}
			if len(kinds) >= 2 || clipped {
				h := harness.HashBytes(b)
				harness.NonTrivialHash(h)
				if len(b) <= 64 {
					harness.Sample(subC13A.Name, h, map[string]interface{}{"B": m.Bytes(b), "gen": kind})
				}
			}
			if clipped {
				harness.Class("A-last-chunk-overshoots-or-clipped", 1)
			}
		} else {
			harness.Class("A-rejected:"+kind, 1)
		}
		subC13A.Check(rt, c)
	})

	// (B) generated sequences, two independent chunkings
	harness.RapidCheck(t, harness.Scale(5000, 40000), 131, func(rt *rapid.T) {
		maxLen := 300
		if harness.Thorough() {
			maxLen = 5000
			if rapid.IntRange(0, 199).Draw(rt, "huge?") == 0 {
				maxLen = 65535
			}
		}
		var c c13Seq
		var s gen.TWCCSeq
		if rapid.IntRange(0, 11).Draw(rt, "long?") == 0 {
			// status counts up to 65535 (runs of lost packets keep the packet small)
			var c1, c2 []m.TWCCChunk
			s, c1, c2 = gen.LongTWCC(rt)
			c = c13Seq{Statuses: s.Statuses, Ticks: s.Ticks, C1: c1, C2: c2}
			harness.Class("B-long-sequence", 1)
			if len(s.Statuses) > 57344 {
				harness.Class("B-long-sequence-count-above-57344", 1)
			}
		} else {
			s = gen.Statuses(rt, maxLen)
			c = c13Seq{Statuses: s.Statuses, Ticks: s.Ticks, C1: gen.Chunking(rt, s.Statuses, true), C2: gen.Chunking(rt, s.Statuses, true)}
		}
		recv, lost := false, false
		for _, x := range s.Statuses {
			if x == m.SymNotReceived {
				lost = true
			} else {
				recv = true
			}
		}
		nt := recv && lost && !reflect.DeepEqual(c.C1, c.C2)
		harness.Record(subC13B.Name, c, nt && len(s.Statuses) <= 64)
		if nt && len(s.Statuses) > 64 {
			harness.NonTrivialHash(harness.Hash(c))
		}
		subC13B.Check(rt, c)
	})

	// (B) exhaustive: all status sequences up to length n x all chunkings, each against the first
	maxN := 5
	if harness.Thorough() {
		maxN = 6
	}
	var nseq, nchunk int64
	idx := int64(0)
	for n := 0; n <= maxN; n++ {
		total := 1
		for i := 0; i < n; i++ {
			total *= 3
		}
		for code := 0; code < total; code++ {
			idx++
			if int(idx)%harness.Cfg.NShards != harness.Cfg.Shard {
				continue
			}
			st := make([]uint16, n)
			x := code
			var ticks []int64
			for i := 0; i < n; i++ {
				st[i] = uint16(x % 3)
				x /= 3
				switch st[i] {
				case m.SymSmall:
					ticks = append(ticks, int64(200+i))
				case m.SymLarge:
					ticks = append(ticks, int64(-3000-i))
				}
			}
			all := enumerateChunkings(st)
			nseq++
			for _, ck := range all {
				c := c13Seq{Statuses: st, Ticks: ticks, C1: all[0], C2: ck}
				if err := subC13B.Oracle(c, nil); err != nil {
					subC13B.Check(t, c)
				}
				nchunk++
			}
		}
	}
	harness.Eval(subC13B.Name+"/exhaustive", nchunk)
	harness.NonTrivialDistinct(nchunk)
	harness.Class("B-exhaustive-sequences", nseq)
	harness.Exhaustive(subC13B.Name+"/exhaustive", fmt.Sprintf("all 3^n status sequences, n = 0..%d, x all their chunkings (run-length splits, final 1-bit / 2-bit vector, over-long final run)", maxN))
}

// FuzzC13TWCC: coverage-guided search over bytes handed to the TWCC decoder.
func FuzzC13TWCC(f *testing.F) {
	g := rapid.Custom(func(t *rapid.T) []byte { _, b := genTWCCBytes(t); return b })
	for i := 0; i < 120; i++ {
		if b := g.Example(i); len(b) <= 2048 {
			f.Add(b)
		}
	}
	f.Fuzz(func(t *testing.T, data []byte) {
		subC13A.Check(t, c13Bytes{B: data})
	})
}
