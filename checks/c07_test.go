package checks

import (
	"bytes"
	"fmt"
	"testing"

	"github.com/pion/rtcp"
	"pgregory.net/rapid"

	"verif/conv"
	"verif/gen"
	"verif/harness"
	m "verif/refmodel"
)

// C07: dispatch to the right Go type; decoders reject foreign types.

type c07Cell struct {
	Frame m.Bytes
	Valid bool // the body is a valid packet of the kind the (PT, FMT) row registers
	// After: the frame is not the first of its datagram - "typed": an (empty) receiver report
	// comes first, "raw": a frame without a table row does. Dispatch is per frame: what came
	// before must not matter.
	After string `json:",omitempty"`
}

var c07Before = map[string][]byte{
	"typed": {0x80, 201, 0, 1, 0, 0, 0, 9},
	"raw":   {0x85, 208, 0, 1, 1, 2, 3, 4},
}

var subC07Dispatch = harness.NewSub("c07-dispatch-table", func(c c07Cell, d harness.Dialect) error {
	pt, count := c.Frame[1], c.Frame[0]&0x1f
	want := m.Dispatch(pt, count, m.Strict)
	ps, err := decodeDatagram(append(append([]byte(nil), c07Before[c.After]...), c.Frame...))
	if c.After != "" && err == nil {
		if len(ps) < 1 || (c.After == "typed") != (typeName(ps[0]) == "*rtcp.ReceiverReport") || (c.After == "raw") != (typeName(ps[0]) == "*rtcp.RawPacket") {
			return fmt.Errorf("PT %d FMT %d after a %s frame: the first packet came back as %s", pt, count, c.After, typeName(ps[0]))
		}
		if raw, ok := ps[0].(*rtcp.RawPacket); ok && !bytes.Equal([]byte(*raw), c07Before["raw"]) {
			return fmt.Errorf("PT %d FMT %d after a raw frame: the first RawPacket holds %s, not its own frame", pt, count, hexs(*raw))
		}
		ps = ps[1:]
	}
	if d.Has("sli-pt-205") && pt == 206 && count == 2 {
		// listed: the 206/2 row dispatches to a decoder that only accepts 205/2
		if err == nil {
			return fmt.Errorf("dialect sli-pt-205 expected an error for a 206/2 frame")
		}
		return nil
	}
	if want == m.KRAW {
		if err != nil {
			return fmt.Errorf("PT %d FMT %d (no table row): rtcp.Unmarshal failed: %v\nframe: %s", pt, count, err, hexs(c.Frame))
		}
		if len(ps) != 1 {
			return fmt.Errorf("PT %d FMT %d: %d packets", pt, count, len(ps))
		}
		raw, ok := ps[0].(*rtcp.RawPacket)
		if !ok {
			return fmt.Errorf("PT %d FMT %d has no table row but came back as %s, want *rtcp.RawPacket", pt, count, typeName(ps[0]))
		}
		if !bytes.Equal([]byte(*raw), c.Frame) {
			return fmt.Errorf("PT %d FMT %d: RawPacket does not hold the frame verbatim: %s vs %s", pt, count, hexs(*raw), hexs(c.Frame))
		}
		return nil
	}
	if !c.Valid {
		// arbitrary body on a table row: the typed decoder may reject it; if it accepts, the type must be right
		if err != nil {
			return nil
		}
	} else if err != nil {
		return fmt.Errorf("PT %d FMT %d with a valid %s body: rtcp.Unmarshal failed: %v\nframe: %s", pt, count, want, err, hexs(c.Frame))
	}
	if len(ps) != 1 {
		return fmt.Errorf("PT %d FMT %d: %d packets", pt, count, len(ps))
	}
	if tn := typeName(ps[0]); tn != conv.GoType(want) {
		return fmt.Errorf("PT %d FMT %d came back as %s, the table registers %s", pt, count, tn, conv.GoType(want))
	}
	return nil
})

type c07Pair struct {
	T     m.Kind  // decoder under test
	U     m.Kind  // kind of the foreign packet
	Frame m.Bytes // a well-formed U packet
}

var subC07Foreign = harness.NewSub("c07-decoder-rejects-foreign-type", func(c c07Pair, d harness.Dialect) error {
	if d.Has("ccfb-no-fmt-guard") && c.T == m.KCCFB && len(c.Frame) >= 2 && c.Frame[1] == 205 {
		return nil // listed: CCFeedbackReport.Unmarshal checks the packet type only
	}
	recv := conv.New(c.T)
	err := recv.Unmarshal(append([]byte(nil), c.Frame...))
	if err == nil {
		return fmt.Errorf("%s.Unmarshal accepted a well-formed %s packet: %s", conv.GoType(c.T), c.U, hexs(c.Frame))
	}
	return nil
})

var subC07Own = harness.NewSub("c07-own-output-dispatched-back", func(c valCase, d harness.Dialect) error {
	pk := conv.ToPion(c.P)
	b, err := pk.Marshal()
	if err != nil {
		return fmt.Errorf("Marshal rejected a well-formed %s: %v", c.P.Kind, err)
	}
	if d.Has("ccfb-rejects-seq-wrap") && ccfbSpansWrap(c.P) {
		return nil
	}
	if d.Has("ccfb-one-metric-block") && ccfbHasOneMetricBlock(c.P) {
		return nil
	}
	ps, err := decodeDatagram(b)
	if err != nil {
		return fmt.Errorf("%s: rtcp.Unmarshal rejects the type's own output: %v\nbytes: %s", c.P.Kind, err, hexs(b))
	}
	if len(ps) != 1 {
		return fmt.Errorf("%s: %d packets", c.P.Kind, len(ps))
	}
	if d.Has("sli-pt-205") && c.P.Kind == m.KSLI {
		if _, ok := ps[0].(*rtcp.RawPacket); ok {
			return nil
		}
	}
	if tn := typeName(ps[0]); tn != conv.GoType(c.P.Kind) {
		return fmt.Errorf("output of %s.Marshal came back from rtcp.Unmarshal as %s\nbytes: %s", conv.GoType(c.P.Kind), tn, hexs(b))
	}
	return nil
})

// packetWithCount draws a D-value of kind k whose header count field is exactly count
// (only meaningful for SR/RR/SDES/BYE/APP, where the count is content).
func packetWithCount(t *rapid.T, k m.Kind, count int) m.Packet {
	p := gen.PacketOf(t, k)
	switch k {
	case m.KSR:
		for len(p.SR.Reports) < count {
			p.SR.Reports = append(p.SR.Reports, gen.RBlock(t))
		}
		p.SR.Reports = p.SR.Reports[:count]
	case m.KRR:
		for len(p.RR.Reports) < count {
			p.RR.Reports = append(p.RR.Reports, gen.RBlock(t))
		}
		p.RR.Reports = p.RR.Reports[:count]
	case m.KSDES:
		for len(p.SDES.Chunks) < count {
			p.SDES.Chunks = append(p.SDES.Chunks, m.SDESChunk{Source: gen.U32(t, "src")})
		}
		p.SDES.Chunks = p.SDES.Chunks[:count]
	case m.KBYE:
		for len(p.BYE.Sources) < count {
			p.BYE.Sources = append(p.BYE.Sources, gen.U32(t, "src"))
		}
		p.BYE.Sources = p.BYE.Sources[:count]
	case m.KAPP:
		p.APP.Subtype = uint8(count)
	}
	return p
}

func c07ValidFrame(seed int, pt, count uint8) []byte {
	k := m.Dispatch(pt, count, m.Strict)
	g := rapid.Custom(func(t *rapid.T) []byte {
		p := packetWithCount(t, k, int(count))
		// CCFB bodies are written the way pion reads them (listed finding), so that the
		// typed decoder succeeds and the dispatch itself is what is judged
		opts := &m.EncOpts{D: m.Dialect{CCFBMinusOne: true}}
		if k == m.KCCFB {
			for i := range p.CCFB.Blocks {
				b := &p.CCFB.Blocks[i]
				if len(b.Metrics) == 1 || int(b.BeginSeq)+len(b.Metrics) > 65535 {
					b.Metrics = nil
				}
			}
		}
		if k == m.KXR {
			opts.Rsvd = func(n int) uint32 {
				if n == 5 {
					return uint32(count)
				}
				return 0
			}
		}
		e, err := m.Encode(p, opts)
		if err != nil {
			panic(err)
		}
		return e.B
	})
	return g.Example(seed)
}

func c07RandomFrame(seed int, pt, count uint8) []byte {
	g := rapid.Custom(func(t *rapid.T) []byte {
		words := rapid.IntRange(0, 16).Draw(t, "words")
		b := []byte{0x80 | count, pt, 0, byte(words)}
		if gen.Bool(t, "p") {
			b[0] |= 0x20
		}
		return append(b, gen.BytesN(t, 4*words, "body")...)
	})
	return g.Example(seed)
}

func TestC07(t *testing.T) {
	defer harness.Uncaught(t)
	bodies := harness.Scale(3, 24)
	base := int(harness.SeedFor(7) % (1 << 30))

	// (a) exhaustive over the 8192 (PT, FMT) cells
	lo, hi := harness.ShardRange(8192)
	var nCells int64
	for cell := lo; cell < hi; cell++ {
		pt, count := uint8(cell>>5), uint8(cell&31)
		k := m.Dispatch(pt, count, m.Strict)
		for j := 0; j < bodies; j++ {
			seed := base + int(cell)*64 + j
			if k != m.KRAW {
				c := c07Cell{Frame: c07ValidFrame(seed, pt, count), Valid: true}
				subC07Dispatch.Check(t, c)
				nCells++
				if j == 0 {
					for _, after := range []string{"typed", "raw"} {
						subC07Dispatch.Check(t, c07Cell{Frame: c.Frame, Valid: true, After: after})
						nCells++
					}
				}
				if j == 0 && cell%7 == 0 {
					harness.Sample(subC07Dispatch.Name, harness.HashBytes(c.Frame), c)
				}
			}
			c := c07Cell{Frame: c07RandomFrame(seed+32, pt, count)}
			subC07Dispatch.Check(t, c)
			nCells++
			if j == 0 {
				for _, after := range []string{"typed", "raw"} {
					subC07Dispatch.Check(t, c07Cell{Frame: c.Frame, After: after})
					nCells++
				}
			}
		}
		harness.Class("cell-kind:"+string(k), 1)
		// the largest frame the header can describe (length field 65535 = 262144 octets), for
		// every 64th cell without a table row: it must come back verbatim as a RawPacket too
		if k == m.KRAW && cell%64 == 5 {
			big := make([]byte, 262144)
			big[0], big[1], big[2], big[3] = 0x80|count, pt, 0xFF, 0xFF
			for i := 4; i < len(big); i += 97 {
				big[i] = byte(i)
			}
			subC07Dispatch.Check(t, c07Cell{Frame: big})
			nCells++
			harness.Class("cell-max-length-frame", 1)
		}
	}
	harness.Eval(subC07Dispatch.Name, nCells)
	harness.NonTrivialDistinct(hi - lo) // every (PT, FMT) cell is distinct by construction
	harness.Exhaustive(subC07Dispatch.Name, fmt.Sprintf("all 256 packet types x 32 count/FMT values, %d generated bodies each (valid bodies on table rows, random bodies everywhere)", bodies))

	// (b) every ordered pair (T, U), T != U, with well-formed U packets from both encoders
	us := append(append([]m.Kind(nil), m.TypedKinds...), m.KRAW)
	perPair := harness.Scale(12, 200)
	var pairs [][2]m.Kind
	for _, T := range m.TypedKinds {
		for _, U := range us {
			if T != U {
				pairs = append(pairs, [2]m.Kind{T, U})
			}
		}
	}
	plo, phi := harness.ShardRange(int64(len(pairs)))
	var nPairs int64
	for pi := plo; pi < phi; pi++ {
		T, U := pairs[pi][0], pairs[pi][1]
		for j := 0; j < perPair; j++ {
			seed := base + 1_000_000 + int(pi)*1024 + j
			g := rapid.Custom(func(rt *rapid.T) []byte {
				p := gen.PacketOf(rt, U)
				if gen.Bool(rt, "pion.encoder") {
					if b, err := safeMarshal(conv.ToPion(p)); err == nil {
						return b
					}
				}
				e, err := m.Encode(p, nil)
				if err != nil {
					panic(err)
				}
				return e.B
			})
			c := c07Pair{T: T, U: U, Frame: g.Example(seed)}
			subC07Foreign.Check(t, c)
			nPairs++
			if j == 0 && pi%9 == 0 {
				harness.Sample(subC07Foreign.Name, harness.HashBytes(c.Frame), c)
			}
		}
		harness.Class("pair:"+string(T)+"<-"+string(U), int64(perPair))
	}
	harness.Eval(subC07Foreign.Name, nPairs)
	harness.NonTrivialDistinct(phi - plo)
	harness.Exhaustive(subC07Foreign.Name, fmt.Sprintf("all %d ordered pairs (decoder T, foreign kind U) over the 14 typed kinds plus raw, %d generated U-packets each", len(pairs), perPair))

	// (b') T-shaped foreign packets: a valid T encoding whose header is rewritten to every other
	// (PT, FMT) cell. Whenever the result is a well-formed packet of the cell's kind according to
	// the reference decoder (a "polyglot"), T's decoder must reject it. Random foreign packets
	// never satisfy T's body checks (REMB's identifier, exact lengths), so a weakened type guard
	// would hide behind them; these frames pass every body check by construction.
	perKind := harness.Scale(2, 12)
	var nPoly, nWellFormed int64
	for ti, T := range m.TypedKinds {
		if ti%harness.Cfg.NShards != harness.Cfg.Shard {
			continue
		}
		for j := 0; j < perKind; j++ {
			g := rapid.Custom(func(rt *rapid.T) []byte {
				p := c06Readable(gen.PacketOf(rt, T))
				shrinkBig(p)
				if T == m.KXR && len(p.XR.Blocks) > 2 {
					p.XR.Blocks = p.XR.Blocks[:2]
				}
				e, err := m.Encode(p, &m.EncOpts{D: gen.PionDialect})
				if err != nil {
					panic(err)
				}
				return e.B
			})
			base1 := g.Example(base + 2_000_000 + ti*64 + j)
			if len(base1) > 600 {
				continue
			}
			ownPT, ownCount := base1[1], base1[0]&0x1f
			for cell := 0; cell < 8192; cell++ {
				pt, count := uint8(cell>>5), uint8(cell&31)
				U := m.Dispatch(pt, count, m.Strict)
				if U == T || (pt == ownPT && count == ownCount) {
					continue
				}
				f := append([]byte(nil), base1...)
				f[0] = f[0]&0xE0 | count
				f[1] = pt
				nPoly++
				if _, err := m.DecodeFrame(f, U, m.Strict); err != nil {
					continue // not a well-formed packet of the other kind
				}
				nWellFormed++
				c := c07Pair{T: T, U: U, Frame: f}
				if err := subC07Foreign.Oracle(c, nil); err != nil {
					subC07Foreign.Check(t, c)
				}
			}
		}
	}
	harness.Eval(subC07Foreign.Name+"/T-shaped-foreign", nPoly)
	harness.NonTrivialDistinct(nWellFormed)
	harness.Class("T-shaped-foreign-frames-well-formed-as-other-kind", nWellFormed)
	harness.Exhaustive(subC07Foreign.Name+"/T-shaped-foreign", fmt.Sprintf("%d valid encodings per typed kind x all 8192 (PT, FMT) headers; frames the reference accepts as a packet of the other kind must be rejected", perKind))

	// (c) own output comes back as the same type
	harness.RapidCheck(t, harness.Scale(1500, 12000), 71, func(rt *rapid.T) {
		c := valCase{P: gen.Packet(rt)}
		harness.Record(subC07Own.Name, c, valueNonTrivial(c.P), "own:"+string(c.P.Kind))
		subC07Own.Check(rt, c)
	})
}
