package checks

import (
	"bytes"
	"fmt"
	"math"
	"testing"

	"github.com/pion/rtcp"

	"verif/harness"
	m "verif/refmodel"
)

// C14: REMB bitrate coding is exact, monotone and saturating.

type c14Dec struct {
	Exp, Mant uint32
}

type c14Enc struct {
	Bits uint32 // float32 bit pattern of the bitrate
}

type c14Count struct {
	N int
}

func rembFrame(exp, mant uint32, ssrcs int) []byte {
	b := make([]byte, 20+4*ssrcs)
	b[0], b[1] = 0x8F, 206
	words := len(b)/4 - 1
	b[2], b[3] = byte(words>>8), byte(words)
	copy(b[12:], "REMB")
	b[16] = byte(ssrcs)
	x := exp<<18 | mant
	b[17], b[18], b[19] = byte(x>>16), byte(x>>8), byte(x)
	return b
}

var subC14Dec = harness.NewSub("c14-decode-exact", func(c c14Dec, d harness.Dialect) error {
	var p rtcp.ReceiverEstimatedMaximumBitrate
	if err := p.Unmarshal(rembFrame(c.Exp, c.Mant, 0)); err != nil {
		return fmt.Errorf("REMB exp=%d mantissa=%d rejected: %v", c.Exp, c.Mant, err)
	}
	want := m.REMBValue(c.Exp, c.Mant, d.Ref())
	if p.Bitrate != want {
		return fmt.Errorf("REMB exp=%d mantissa=%d decodes to %v, want mantissa*2^exp = %v", c.Exp, c.Mant, p.Bitrate, want)
	}
	return nil
})

// encodeREMB returns the (exp, mantissa) pion writes for a bitrate.
func encodeREMB(x float32) (exp, mant uint32, err error) {
	p := rtcp.ReceiverEstimatedMaximumBitrate{Bitrate: x}
	b, err := p.Marshal()
	if err != nil {
		return 0, 0, err
	}
	if len(b) != 20 {
		return 0, 0, fmt.Errorf("REMB with no SSRC marshals to %d octets", len(b))
	}
	v := uint32(b[17])<<16 | uint32(b[18])<<8 | uint32(b[19])
	// the same through MarshalTo into a caller's buffer that still holds something else (a
	// scratch buffer reused between packets): exponent and mantissa are written, not merged
	buf := make([]byte, 24)
	for i := range buf {
		buf[i] = byte(0xF0 | i)
	}
	if n, err := p.MarshalTo(buf); err != nil || n != 20 || !bytes.Equal(buf[:20], b) {
		return 0, 0, fmt.Errorf("REMB.MarshalTo into a used buffer = %x (n=%d, err=%v), Marshal() = %x", buf[:20], n, err, b)
	}
	return v >> 18, v & 0x3FFFF, nil
}

func c14CheckEncode(x float32, d harness.Dialect) error {
	exp, mant, err := encodeREMB(x)
	f := float64(x)
	if f < 0 { // negative (not -0)
		if err == nil {
			return fmt.Errorf("negative bitrate %v was encoded (exp %d mantissa %d) instead of rejected", x, exp, mant)
		}
		return nil
	}
	if err != nil {
		return fmt.Errorf("non-negative bitrate %v (bits %#08x) rejected: %v", x, math.Float32bits(x), err)
	}
	wexp, wmant, _ := m.REMBEncode(x)
	if exp != wexp || mant != wmant {
		return fmt.Errorf("bitrate %v (bits %#08x) encoded as exp=%d mantissa=%d, want exp=%d mantissa=%d (largest 18-bit mantissa value <= x with minimal exponent)", x, math.Float32bits(x), exp, mant, wexp, wmant)
	}
	// the stated consequences, from the emitted pair and exact arithmetic (not from the reference encoder)
	val := math.Ldexp(float64(mant), int(exp))
	max := math.Ldexp(float64(0x3FFFF), 63)
	switch {
	case math.IsInf(f, 1) || f >= max:
		if exp != 63 || mant != 0x3FFFF {
			return fmt.Errorf("bitrate %v must saturate to 0x3FFFF*2^63, got exp=%d mantissa=%#x", x, exp, mant)
		}
	default:
		if val > f {
			return fmt.Errorf("bitrate %v: encoded value %v exceeds it", x, val)
		}
		if f-val >= math.Ldexp(1, int(exp)) {
			return fmt.Errorf("bitrate %v: encoded value %v falls short by one unit in the last place or more (exp %d)", x, val, exp)
		}
		if exp != 0 && mant < 1<<17 {
			return fmt.Errorf("bitrate %v: exponent %d is not minimal (mantissa %#x)", x, exp, mant)
		}
	}
	return nil
}

var subC14Enc = harness.NewSub("c14-encode-floor-minimal-exponent", func(c c14Enc, d harness.Dialect) error {
	return c14CheckEncode(math.Float32frombits(c.Bits), d)
})

var subC14Count = harness.NewSub("c14-ssrc-count-octet", func(c c14Count, d harness.Dialect) error {
	p := rtcp.ReceiverEstimatedMaximumBitrate{SenderSSRC: 7, Bitrate: 1000, SSRCs: make([]uint32, c.N)}
	for i := range p.SSRCs {
		p.SSRCs[i] = uint32(i) * 0x01010101
	}
	b, err := p.Marshal()
	if c.N > 255 {
		if err == nil {
			return fmt.Errorf("REMB with %d SSRCs marshalled without error (count octet %d, %d octets)", c.N, b[16], len(b))
		}
		if len(b) != 0 {
			return fmt.Errorf("REMB with %d SSRCs: error %v together with %d bytes", c.N, err, len(b))
		}
		return nil
	}
	if err != nil {
		return fmt.Errorf("REMB with %d SSRCs rejected: %v", c.N, err)
	}
	if int(b[16]) != c.N || len(b) != 20+4*c.N || int(b[2])<<8|int(b[3]) != len(b)/4-1 {
		return fmt.Errorf("REMB with %d SSRCs: count octet %d, %d octets, length word %d", c.N, b[16], len(b), int(b[2])<<8|int(b[3]))
	}
	var q rtcp.ReceiverEstimatedMaximumBitrate
	if err := q.Unmarshal(b); err != nil || !eq32(q.SSRCs, p.SSRCs) {
		return fmt.Errorf("REMB with %d SSRCs does not decode back: %v", c.N, err)
	}
	return nil
})

// c14WireCount is a REMB frame whose count octet and number of SSRC entries are chosen
// independently.
type c14WireCount struct {
	Octet   int
	Entries int
}

// the decode side of "the SSRC count octet equals the number of SSRC entries": a frame is
// accepted exactly when the two agree, and then yields that many SSRCs.
var subC14WireCount = harness.NewSub("c14-wire-count-octet-vs-entries", func(c c14WireCount, d harness.Dialect) error {
	b := rembFrame(3, 1000, c.Entries)
	b[16] = byte(c.Octet)
	for i := 0; i < c.Entries; i++ {
		b[20+4*i+3] = byte(i)
		b[20+4*i+2] = byte(i >> 8)
	}
	var p rtcp.ReceiverEstimatedMaximumBitrate
	err := p.Unmarshal(exactCopy(b))
	if c.Octet != c.Entries {
		if err == nil {
			return fmt.Errorf("REMB frame with count octet %d and %d SSRC entries (%d octets) accepted, decoded %d SSRCs", c.Octet, c.Entries, len(b), len(p.SSRCs))
		}
		return nil
	}
	if err != nil {
		return fmt.Errorf("REMB frame with count octet %d and %d SSRC entries rejected: %v", c.Octet, c.Entries, err)
	}
	if len(p.SSRCs) != c.Entries {
		return fmt.Errorf("REMB frame with %d SSRC entries decoded to %d SSRCs", c.Entries, len(p.SSRCs))
	}
	for i, s := range p.SSRCs {
		if s != uint32(i) {
			return fmt.Errorf("REMB frame with %d SSRC entries: entry %d decoded as %#x", c.Entries, i, s)
		}
	}
	return nil
})

func TestC14(t *testing.T) {
	defer harness.Uncaught(t)
	// (1) decode: all 64 x 2^18 pairs, sharded by exponent
	lo, hi := harness.ShardRange(64)
	var n1 int64
	var p rtcp.ReceiverEstimatedMaximumBitrate
	frame := rembFrame(0, 0, 0)
	open := harness.AllOpen().Has("remb-zero-mantissa")
	for exp := uint32(lo); exp < uint32(hi); exp++ {
		for mant := uint32(0); mant < 1<<18; mant++ {
			x := exp<<18 | mant
			frame[17], frame[18], frame[19] = byte(x>>16), byte(x>>8), byte(x)
			err := p.Unmarshal(frame)
			want := float32(math.Ldexp(float64(mant), int(exp)))
			if err != nil || p.Bitrate != want {
				if mant == 0 && open {
					// still judged (and counted) through the oracle under the listed finding's dialect
				}
				subC14Dec.Check(t, c14Dec{Exp: exp, Mant: mant})
			}
			n1++
		}
	}
	harness.Eval(subC14Dec.Name, n1)
	harness.NonTrivialDistinct(n1)
	harness.Exhaustive(subC14Dec.Name, "all 64 x 2^18 (exponent, mantissa) wire pairs")
	harness.Sample(subC14Dec.Name, 1, c14Dec{Exp: 6, Mant: 139487})
	harness.Sample(subC14Dec.Name, 2, c14Dec{Exp: 63, Mant: 0x3FFFF})

	// (2)+(3) encode and monotonicity over non-negative finite float32 in bit-pattern (= numeric) order
	const top = 0x7F800000 // +Inf; everything below is finite and non-negative
	var n2 int64
	checkRange := func(from, to uint32, stride uint32) {
		prev := -1.0
		for bits := from; bits < to; bits += stride {
			x := math.Float32frombits(bits)
			exp, mant, err := encodeREMB(x)
			wexp, wmant, _ := m.REMBEncode(x)
			if err != nil || exp != wexp || mant != wmant {
				subC14Enc.Check(t, c14Enc{Bits: bits})
				t.Fatalf("fast path and oracle disagree at bits %#x", bits)
			}
			val := math.Ldexp(float64(mant), int(exp))
			if val < prev {
				harness.WriteFail(subC14Enc.Name, c14Enc{Bits: bits}, fmt.Sprintf("encoding is not monotone: bitrate %v encodes to %v, a smaller bitrate encoded to %v", x, val, prev))
				t.Fatalf("monotonicity violated at bits %#x", bits)
			}
			prev = val
			n2++
			if bits > math.MaxUint32-stride {
				break
			}
		}
	}
	if harness.Thorough() {
		lo, hi := harness.ShardRange(top)
		// overlap one value with the previous shard so monotonicity is also checked across the cut
		from := uint32(lo)
		if from > 0 {
			from--
		}
		checkRange(from, uint32(hi), 1)
		harness.Exhaustive(subC14Enc.Name, "all 2^31-2^23 non-negative finite float32 bitrates, in numeric order (monotonicity checked between neighbours)")
	} else {
		lo, hi := harness.ShardRange(top)
		checkRange(uint32(lo), uint32(hi), 509) // odd stride: ~4.2M values
		// dense windows around every power of two, mantissa carry and the saturation point
		for e := 0; e <= 127; e++ {
			if e%harness.Cfg.NShards != harness.Cfg.Shard {
				continue
			}
			c := math.Float32bits(float32(math.Ldexp(1, e)))
			checkRange(c-64, c+64, 1)
			c2 := math.Float32bits(float32(math.Ldexp(float64(0x3FFFF), e%64)))
			checkRange(c2-64, c2+64, 1)
		}
		sat := math.Float32bits(0x3FFFFp+63)
		checkRange(sat-200, sat+200, 1)
		checkRange(0, 300, 1)
	}
	harness.Eval(subC14Enc.Name, n2)
	harness.NonTrivialDistinct(n2)
	harness.Sample(subC14Enc.Name, 3, c14Enc{Bits: math.Float32bits(8927167)})

	// specials: -0, tiny negatives, negatives, +Inf, MaxFloat32
	for _, x := range []float32{float32(math.Copysign(0, -1)), -math.SmallestNonzeroFloat32, -1e-30, -0.5, -1, -262144, -math.MaxFloat32, float32(math.Inf(-1)), float32(math.Inf(1)), math.MaxFloat32, 0x3FFFFp+63} {
		subC14Enc.Check(t, c14Enc{Bits: math.Float32bits(x)})
		harness.Eval(subC14Enc.Name+"/specials", 1)
	}

	// (4) SSRC count octet
	if harness.Cfg.Shard == 0 {
		for n := 0; n <= 260; n++ {
			subC14Count.Check(t, c14Count{N: n})
		}
		subC14Count.Check(t, c14Count{N: 511})
		subC14Count.Check(t, c14Count{N: 512})
		harness.Eval(subC14Count.Name, 263)
		harness.NonTrivialDistinct(263)
		harness.Exhaustive(subC14Count.Name, "SSRC list lengths 0..260, 511, 512")
		harness.Sample(subC14Count.Name, 4, c14Count{N: 255})
	}
	// (5) wire side of the count octet: every octet value against entry counts around it,
	// around the multiples of 256 it is congruent to, and at the small and large ends
	lo5, hi5 := harness.ShardRange(256)
	var n5 int64
	for octet := int(lo5); octet < int(hi5); octet++ {
		seen := map[int]bool{}
		for _, e := range []int{0, 1, 2, octet - 1, octet, octet + 1, octet + 255, octet + 256, octet + 257,
			octet + 512, octet + 768, 254, 255, 256, 257, 511, 512, 16378 - 255 + octet, 16378} {
			if e < 0 || seen[e] {
				continue
			}
			seen[e] = true
			subC14WireCount.Check(t, c14WireCount{Octet: octet, Entries: e})
			n5++
		}
	}
	harness.Eval(subC14WireCount.Name, n5)
	harness.NonTrivialDistinct(n5)
	harness.Exhaustive(subC14WireCount.Name, "count octets 0..255 x entry counts {0,1,2,o-1,o,o+1,o+255..o+257,o+512,o+768,254..257,511,512,16123+o,16378}")
	harness.Sample(subC14WireCount.Name, 4, c14WireCount{Octet: 44, Entries: 300})
}
