package checks

import (
	"fmt"
	"math"
	"reflect"
	"strings"
	"testing"

	"github.com/pion/rtcp"
	"pgregory.net/rapid"

	"verif/conv"
	"verif/gen"
	"verif/harness"
	m "verif/refmodel"
)

// C17: String() is total on every decoded or constructible packet.

// fmt converts a panic raised inside a String method into text containing this marker
// instead of propagating it, so it has to be searched for explicitly.
const fmtPanicMarker = "(PANIC="

// containsOwnMarker: the marker occurs in one of the packet's own string fields (so its
// presence in the output proves nothing).
func containsOwnMarker(v reflect.Value, depth int) bool {
	if depth > 8 {
		return false
	}
	switch v.Kind() {
	case reflect.String:
		return strings.Contains(v.String(), "PANIC=")
	case reflect.Ptr, reflect.Interface:
		if v.IsNil() {
			return false
		}
		return containsOwnMarker(v.Elem(), depth+1)
	case reflect.Struct:
		for i := 0; i < v.NumField(); i++ {
			if containsOwnMarker(v.Field(i), depth+1) {
				return true
			}
		}
	case reflect.Slice:
		if v.Type().Elem().Kind() == reflect.Uint8 {
			return strings.Contains(string(v.Bytes()), "PANIC=")
		}
		for i := 0; i < v.Len(); i++ {
			if containsOwnMarker(v.Index(i), depth+1) {
				return true
			}
		}
	}
	return false
}

// stringTotal applies the oracle to one value (a packet pointer, or an enum value).
func stringTotal(x interface{}) error {
	rv := reflect.ValueOf(x)
	own := containsOwnMarker(rv, 0)
	check := func(what, s string) error {
		if !own && strings.Contains(s, fmtPanicMarker) {
			return fmt.Errorf("%s of %T contains fmt's swallowed-panic marker: %.300s", what, x, s)
		}
		return nil
	}
	if st, ok := x.(fmt.Stringer); ok {
		var s string
		if perr := harness.Guard(func() error { s = st.String(); return nil }); perr != nil {
			return fmt.Errorf("%T.String() panicked: %v", x, perr)
		}
		if s == "" {
			if _, isEnum := x.(rtcp.PacketType); !isEnum {
				if _, isSDES := x.(rtcp.SDESType); !isSDES {
					return fmt.Errorf("%T.String() returned an empty string", x)
				}
			}
		}
		if err := check("String()", s); err != nil {
			return err
		}
	}
	targets := []interface{}{x}
	if rv.Kind() == reflect.Ptr && !rv.IsNil() {
		targets = append(targets, rv.Elem().Interface())
	}
	for _, tg := range targets {
		for _, verb := range []string{"%v", "%+v", "%s"} {
			var s string
			if perr := harness.Guard(func() error { s = fmt.Sprintf(verb, tg); return nil }); perr != nil {
				return fmt.Errorf("fmt.Sprintf(%q, %T) panicked: %v", verb, tg, perr)
			}
			if err := check("fmt.Sprintf("+verb+")", s); err != nil {
				return err
			}
		}
	}
	return nil
}

type c17Bytes struct {
	B m.Bytes
}

// c17MaxInput bounds the inputs whose packets are printed: several String methods build
// their result by repeated concatenation (quadratic in the list length), so printing a
// 16384-entry CCFB block costs seconds. Larger inputs are skipped (counted), which only
// narrows what is explored.
const c17MaxInput = 6144

var subC17Decoded = harness.NewSub("c17-string-of-decoded", func(c c17Bytes, _ harness.Dialect) error {
	if len(c.B) > c17MaxInput {
		return nil
	}
	ps, err := rtcp.Unmarshal(append([]byte(nil), c.B...))
	if err != nil {
		return nil
	}
	for _, p := range ps {
		if err := stringTotal(p); err != nil {
			return fmt.Errorf("packet decoded from %s: %v", hexs(c.B), err)
		}
	}
	cp := rtcp.CompoundPacket(ps)
	if err := stringTotal(&cp); err != nil {
		return fmt.Errorf("compound of the packets decoded from %s: %v", hexs(c.B), err)
	}
	return nil
})

// c17Value: a model value plus optional out-of-range tweaks applied to the pion struct.
type c17Value struct {
	P       m.Packet
	Bitrate *uint32 `json:",omitempty"` // float32 bits to plant into a REMB
	Enum    *uint8  `json:",omitempty"` // value planted into enum-like fields (SDES type, XR ToH)
	// EmptyNonNil: every nil slice of the constructed packet is replaced by an empty, allocated
	// one (what `[]T{}` or a re-sliced buffer gives a caller) - "empty lists" come in both forms.
	EmptyNonNil bool `json:",omitempty"`
}

// makeEmptySlicesNonNil walks a constructed packet and allocates every nil slice.
func makeEmptySlicesNonNil(v reflect.Value, depth int) {
	if depth > 10 {
		return
	}
	switch v.Kind() {
	case reflect.Ptr, reflect.Interface:
		if !v.IsNil() {
			makeEmptySlicesNonNil(v.Elem(), depth+1)
		}
	case reflect.Struct:
		for i := 0; i < v.NumField(); i++ {
			if v.Field(i).CanSet() || v.Field(i).Kind() == reflect.Ptr || v.Field(i).Kind() == reflect.Interface || v.Field(i).Kind() == reflect.Struct || v.Field(i).Kind() == reflect.Slice {
				makeEmptySlicesNonNil(v.Field(i), depth+1)
			}
		}
	case reflect.Slice:
		if v.IsNil() {
			if v.CanSet() {
				v.Set(reflect.MakeSlice(v.Type(), 0, 0))
			}
			return
		}
		for i := 0; i < v.Len(); i++ {
			makeEmptySlicesNonNil(v.Index(i), depth+1)
		}
	}
}

func c17Build(c c17Value) rtcp.Packet {
	pk := conv.ToPion(c.P)
	var walk func(p rtcp.Packet)
	walk = func(p rtcp.Packet) {
		switch v := p.(type) {
		case *rtcp.ReceiverEstimatedMaximumBitrate:
			if c.Bitrate != nil {
				v.Bitrate = math.Float32frombits(*c.Bitrate)
			}
		case *rtcp.SourceDescription:
			if c.Enum != nil {
				for i := range v.Chunks {
					for j := range v.Chunks[i].Items {
						v.Chunks[i].Items[j].Type = rtcp.SDESType(*c.Enum)
					}
				}
			}
		case *rtcp.ExtendedReport:
			if c.Enum != nil {
				for _, b := range v.Reports {
					switch bb := b.(type) {
					case *rtcp.StatisticsSummaryReportBlock:
						bb.TTLorHopLimit = rtcp.TTLorHopLimitType(*c.Enum)
					case *rtcp.UnknownReportBlock:
						bb.BlockType = rtcp.BlockTypeType(*c.Enum)
					case *rtcp.LossRLEReportBlock:
						bb.T = *c.Enum
					}
				}
			}
		case *rtcp.CCFeedbackReport:
			if c.Enum != nil {
				for i := range v.ReportBlocks {
					for j := range v.ReportBlocks[i].MetricBlocks {
						v.ReportBlocks[i].MetricBlocks[j].ECN = rtcp.ECN(*c.Enum)
					}
				}
			}
		case *rtcp.TransportLayerCC:
			if c.Enum != nil {
				v.Header.Type = rtcp.PacketType(*c.Enum)
			}
		case *rtcp.CompoundPacket:
			for _, x := range *v {
				walk(x)
			}
		}
	}
	walk(pk)
	if c.EmptyNonNil {
		makeEmptySlicesNonNil(reflect.ValueOf(pk), 0)
	}
	return pk
}

var subC17Value = harness.NewSub("c17-string-of-value", func(c c17Value, _ harness.Dialect) error {
	pk := c17Build(c)
	if err := stringTotal(pk); err != nil {
		return fmt.Errorf("%v\nvalue: %s", err, conv.JSON(c))
	}
	return nil
})

type c17REMB struct {
	Exp, Mant uint32
}

var subC17REMB = harness.NewSub("c17-string-of-decoded-remb", func(c c17REMB, _ harness.Dialect) error {
	var p rtcp.ReceiverEstimatedMaximumBitrate
	if err := p.Unmarshal(rembFrame(c.Exp, c.Mant, 0)); err != nil {
		return nil
	}
	var s string
	if perr := harness.Guard(func() error { s = p.String(); return nil }); perr != nil {
		return fmt.Errorf("String() of the REMB decoded from exp=%d mantissa=%d (bitrate %g) panicked: %v", c.Exp, c.Mant, p.Bitrate, perr)
	}
	if s == "" {
		return fmt.Errorf("empty string")
	}
	return nil
})

type c17Enum struct {
	Type string
	V    uint16
}

var subC17Enum = harness.NewSub("c17-string-of-enum", func(c c17Enum, _ harness.Dialect) error {
	var x interface{}
	switch c.Type {
	case "PacketType":
		x = rtcp.PacketType(c.V)
	case "SDESType":
		x = rtcp.SDESType(c.V)
	case "BlockTypeType":
		x = rtcp.BlockTypeType(c.V)
	case "TTLorHopLimitType":
		x = rtcp.TTLorHopLimitType(c.V)
	case "ChunkType":
		x = rtcp.ChunkType(c.V)
	case "ECN":
		x = rtcp.ECN(c.V)
	case "TypeSpecificField":
		x = rtcp.TypeSpecificField(c.V)
	case "Chunk":
		x = rtcp.Chunk(c.V)
	case "PacketBitmap":
		x = rtcp.PacketBitmap(c.V)
	case "Header":
		x = rtcp.Header{Padding: c.V&1 == 1, Count: uint8(c.V >> 8), Type: rtcp.PacketType(c.V), Length: c.V}
	default:
		return fmt.Errorf("unknown enum type %s", c.Type)
	}
	return stringTotal(x)
})

func genC17Value(t *rapid.T) c17Value {
	c := c17Value{P: genValue(t)}
	for _, x := range leafKindsOf(c.P) {
		if x.Kind == m.KCCFB { // see c17MaxInput: keep printing cost bounded
			for i := range x.CCFB.Blocks {
				if len(x.CCFB.Blocks[i].Metrics) > 400 {
					x.CCFB.Blocks[i].Metrics = x.CCFB.Blocks[i].Metrics[:400]
				}
			}
		}
	}
	if rapid.IntRange(0, 3).Draw(t, "bitrate?") == 0 {
		b := rapid.OneOf(
			rapid.SampledFrom([]uint32{0, math.Float32bits(999.99), math.Float32bits(1000), math.Float32bits(1e18), math.Float32bits(9.99e20), math.Float32bits(1e21), math.Float32bits(1e30), math.Float32bits(math.MaxFloat32), 0x7F800000, 0x7FC00000, 0xFF800000, math.Float32bits(-1)}),
			rapid.Uint32(),
		).Draw(t, "bitrate.bits")
		c.Bitrate = &b
		if !hasKind(c.P, m.KREMB) {
			c.P = gen.PacketOf(t, m.KREMB)
		}
	}
	if rapid.IntRange(0, 3).Draw(t, "enum?") == 0 {
		e := gen.U8(t, "enum")
		c.Enum = &e
	}
	c.EmptyNonNil = rapid.IntRange(0, 2).Draw(t, "empty.nonnil?") == 0
	return c
}

func c17NonTrivial(c c17Value) bool {
	if c.Enum != nil && *c.Enum > 8 {
		return true
	}
	if c.Bitrate != nil {
		return true
	}
	return valueNonTrivial(c.P)
}

func TestC17(t *testing.T) {
	defer harness.Uncaught(t)
	// (i) packets in the image of rtcp.Unmarshal over generated accepted inputs
	harness.RapidCheck(t, harness.Scale(5000, 40000), 17, func(rt *rapid.T) {
		kind, b := gen.HostileBytes(rt, false)
		c := c17Bytes{B: b}
		_, err := safeUnmarshal(b)
		harness.Eval(subC17Decoded.Name, 1)
		if len(b) > c17MaxInput {
			harness.Class("decoded-skipped-larger-than-6KiB", 1)
		} else if err == nil {
			harness.Class("decoded-accepted:"+strings.SplitN(kind, ":", 2)[0], 1)
			h := harness.HashBytes(b)
			harness.NonTrivialHash(h)
			if len(b) < 120 {
				harness.Sample(subC17Decoded.Name, h, c)
			}
		} else {
			harness.Class("decoded-rejected", 1)
		}
		subC17Decoded.Check(rt, c)
	})
	// (ii)+(v) constructed values, including out-of-range enums and extreme bitrates, and compounds
	harness.RapidCheck(t, harness.Scale(5000, 40000), 171, func(rt *rapid.T) {
		c := genC17Value(rt)
		harness.Record(subC17Value.Name, c, c17NonTrivial(c), classesOf(c.P)...)
		subC17Value.Check(rt, c)
	})
	// (ii') every kind as a zero-ish value with empty-but-allocated lists (deterministic)
	if harness.Cfg.Shard == 0 {
		for _, k := range append(append([]m.Kind(nil), gen.LeafKinds...), m.KCOMPOUND) {
			p := m.Packet{Kind: k, SR: &m.SR{}, RR: &m.RR{}, SDES: &m.SDES{Chunks: []m.SDESChunk{{}}}, BYE: &m.BYE{}, APP: &m.APP{Name: []byte("name")}, NACK: &m.NACK{}, RRR: &m.FB{}, PLI: &m.FB{},
				SLI: &m.SLI{}, FIR: &m.FIR{}, REMB: &m.REMB{}, TWCC: &m.TWCC{}, CCFB: &m.CCFB{Blocks: []m.CCFBBlock{{}}}, RAW: []byte{0x80, 192, 0, 0},
				XR: &m.XR{Blocks: []m.XRBlock{{BT: 1}, {BT: 3}, {BT: 5}, {BT: 9}}}}
			if k == m.KCOMPOUND {
				p.Compound = []m.Packet{{Kind: m.KRR, RR: &m.RR{}}, {Kind: m.KXR, XR: &m.XR{}}, {Kind: m.KSDES, SDES: &m.SDES{}}}
			}
			for _, nn := range []bool{false, true} {
				c := c17Value{P: p, EmptyNonNil: nn}
				subC17Value.Check(t, c)
				harness.Eval(subC17Value.Name+"/empty-lists", 1)
				harness.NonTrivialDistinct(1)
			}
		}
	}
	// (iii) REMB: decoded from every exponent x mantissa (quick: 4096 strided mantissas per exponent)
	lo, hi := harness.ShardRange(64)
	step := uint32(64)
	if harness.Thorough() {
		step = 1
	}
	var n3 int64
	for exp := uint32(lo); exp < uint32(hi); exp++ {
		for mant := uint32(0); mant < 1<<18; mant += step {
			c := c17REMB{Exp: exp, Mant: mant | (mant >> 6 & 63)}
			if err := subC17REMB.Oracle(c, nil); err != nil {
				subC17REMB.Check(t, c)
			}
			n3++
		}
	}
	harness.Eval(subC17REMB.Name, n3)
	harness.NonTrivialDistinct(n3)
	if harness.Thorough() {
		harness.Exhaustive(subC17REMB.Name, "all 64 x 2^18 (exponent, mantissa) pairs decoded then printed")
	} else {
		harness.Exhaustive(subC17REMB.Name, "all 64 exponents x 4096 strided mantissas decoded then printed")
	}
	harness.Sample(subC17REMB.Name, 5, c17REMB{Exp: 63, Mant: 0x3FFFF})
	// (iv) enum-like helper types
	if harness.Cfg.Shard == 0 {
		var n4 int64
		for _, ty := range []string{"PacketType", "SDESType", "BlockTypeType", "TTLorHopLimitType", "ChunkType", "ECN", "TypeSpecificField"} {
			for v := 0; v < 256; v++ {
				subC17Enum.Check(t, c17Enum{Type: ty, V: uint16(v)})
				n4++
			}
		}
		for _, ty := range []string{"Chunk", "PacketBitmap", "Header"} {
			for v := 0; v < 65536; v++ {
				c := c17Enum{Type: ty, V: uint16(v)}
				if err := subC17Enum.Oracle(c, nil); err != nil {
					subC17Enum.Check(t, c)
				}
				n4++
			}
		}
		harness.Eval(subC17Enum.Name, n4)
		harness.NonTrivialDistinct(n4)
		harness.Exhaustive(subC17Enum.Name, "all 256 values of 7 enum types, all 2^16 Chunk / PacketBitmap values, 2^16 Header values")
		harness.Sample(subC17Enum.Name, 6, c17Enum{Type: "TTLorHopLimitType", V: 3})
	}
}

// FuzzC17String: coverage-guided search for accepted inputs whose packets cannot be printed.
func FuzzC17String(f *testing.F) {
	for _, s := range fuzzSeeds() {
		f.Add(s)
	}
	f.Fuzz(func(t *testing.T, data []byte) {
		subC17Decoded.Check(t, c17Bytes{B: data})
	})
}
