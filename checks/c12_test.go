package checks

import (
	"fmt"
	"sort"
	"testing"

	"github.com/pion/rtcp"
	"pgregory.net/rapid"

	"verif/harness"
)

// ---- reference -------------------------------------------------------------------------

// refExpand: the packet ID followed by ID+i+1 (mod 65536) for every set bit i, ascending i.
func refExpand(pid, blp uint16) []uint16 {
	out := []uint16{pid}
	for i := 0; i < 16; i++ {
		if blp>>uint(i)&1 == 1 {
			out = append(out, uint16((int(pid)+i+1)%65536))
		}
	}
	return out
}

type c12List struct {
	Seqs []uint16
}

type c12Pair struct {
	PID, BLP uint16
	StopAt   int // Range callback returns false at its StopAt-th call (0-based); -1 = never
}

func eq16(a, b []uint16) bool {
	if len(a) != len(b) {
		return false
	}
	for i := range a {
		if a[i] != b[i] {
			return false
		}
	}
	return true
}

var subC12Cover = harness.NewSub("c12-pairs-cover-exactly", func(c c12List, _ harness.Dialect) error {
	in := append([]uint16(nil), c.Seqs...)
	pairs := rtcp.NackPairsFromSequenceNumbers(in)
	if !eq16(in, c.Seqs) {
		return fmt.Errorf("input slice was modified: %v -> %v", c.Seqs, in)
	}
	want := map[uint16]bool{}
	for _, s := range c.Seqs {
		want[s] = true
	}
	got := map[uint16]bool{}
	for _, p := range pairs {
		for _, s := range refExpand(p.PacketID, uint16(p.LostPackets)) {
			got[s] = true
		}
	}
	var missing, extra []int
	for s := range want {
		if !got[s] {
			missing = append(missing, int(s))
		}
	}
	for s := range got {
		if !want[s] {
			extra = append(extra, int(s))
		}
	}
	if len(missing)+len(extra) > 0 {
		sort.Ints(missing)
		sort.Ints(extra)
		return fmt.Errorf("NackPairsFromSequenceNumbers(%v) = %+v: missing %v, extra %v", c.Seqs, pairs, missing, extra)
	}
	return nil
})

var subC12List = harness.NewSub("c12-packetlist-and-range", func(c c12Pair, _ harness.Dialect) error {
	np := rtcp.NackPair{PacketID: c.PID, LostPackets: rtcp.PacketBitmap(c.BLP)}
	want := refExpand(c.PID, c.BLP)
	if c.StopAt < 0 {
		if got := np.PacketList(); !eq16(got, want) {
			return fmt.Errorf("NackPair{%d,%#04x}.PacketList() = %v, want %v", c.PID, c.BLP, got, want)
		}
	}
	var visited []uint16
	calls := 0
	np.Range(func(s uint16) bool {
		visited = append(visited, s)
		calls++
		return calls-1 != c.StopAt
	})
	wantCalls := len(want)
	if c.StopAt >= 0 && c.StopAt+1 < wantCalls {
		wantCalls = c.StopAt + 1
	}
	if !eq16(visited, want[:wantCalls]) {
		return fmt.Errorf("NackPair{%d,%#04x}.Range stopping at call %d visited %v, want %v", c.PID, c.BLP, c.StopAt, visited, want[:wantCalls])
	}
	if np.PacketID != c.PID || uint16(np.LostPackets) != c.BLP {
		return fmt.Errorf("NackPair modified by Range/PacketList: %+v", np)
	}
	return nil
})

func c12NonTrivial(l []uint16) bool {
	for i := 1; i < len(l); i++ {
		d := l[i] - l[i-1]
		if d == 0 || d == 16 || d == 17 || l[i] < l[i-1] {
			return true
		}
	}
	return false
}

func genSeqList(t *rapid.T) []uint16 {
	n := rapid.IntRange(0, 12).Draw(t, "clusters")
	var out []uint16
	base := rapid.OneOf(
		rapid.Uint16Range(0, 40),
		rapid.Uint16Range(65535-60, 65535),
		rapid.Uint16(),
	).Draw(t, "base")
	cur := base
	for i := 0; i < n; i++ {
		m := rapid.IntRange(1, 18).Draw(t, "len")
		for j := 0; j < m; j++ {
			out = append(out, cur)
			gap := rapid.SampledFrom([]uint16{0, 1, 1, 1, 2, 3, 15, 16, 17, 18, 32, 33}).Draw(t, "gap")
			cur += gap
		}
		cur += rapid.OneOf(rapid.Uint16Range(0, 40), rapid.Uint16()).Draw(t, "jump")
	}
	switch rapid.IntRange(0, 5).Draw(t, "order") {
	case 0: // reversed
		for i, j := 0, len(out)-1; i < j; i, j = i+1, j-1 {
			out[i], out[j] = out[j], out[i]
		}
	case 1: // shuffled
		perm := rapid.Permutation(out).Draw(t, "perm")
		out = perm
	}
	return out
}

func TestC12(t *testing.T) {
	defer harness.Uncaught(t)
	// (i) generated lists
	harness.RapidCheck(t, harness.Scale(15000, 120000), 1, func(rt *rapid.T) {
		c := c12List{Seqs: genSeqList(rt)}
		harness.Record(subC12Cover.Name, c, c12NonTrivial(c.Seqs))
		subC12Cover.Check(rt, c)
	})

	// (i-b) lists longer than the sequence number space (the list, unlike its members, has no
	// 16-bit limit): every number once in ascending order plus duplicates, 65536, 65537 and
	// 131072 entries, and a shorter stretch as the control
	if harness.Cfg.Shard == 0 {
		for _, n := range []int{65535, 65536, 65537, 131072} {
			l := make([]uint16, n)
			for i := range l {
				l[i] = uint16(i*3 + 7) // 3 is coprime to 65536: a permutation per 65536 entries
			}
			subC12Cover.Check(t, c12List{Seqs: l})
			harness.Eval(subC12Cover.Name+"/long-list", 1)
			harness.NonTrivialDistinct(1)
		}
	}

	// (ii) exhaustive two- and three-element lists around 0 and the wrap
	bases := []int{}
	for b := 0; b <= 20; b++ {
		bases = append(bases, b, 65535-b)
	}
	maxGap := 36
	var n2 int64
	lo, hi := harness.ShardRange(int64(len(bases)))
	for _, b := range bases[lo:hi] {
		for g1 := 0; g1 <= maxGap; g1++ {
			for g2 := -2; g2 <= maxGap; g2++ {
				l := []uint16{uint16(b), uint16(b + g1)}
				if g2 >= -1 {
					// g2 == -1: a step back by one (descending); otherwise forward gap
					l = append(l, uint16(b+g1+g2))
				}
				n2++
				c := c12List{Seqs: l}
				subC12Cover.Check(t, c)
			}
		}
	}
	harness.Eval(subC12Cover.Name+"/exhaustive-short", n2)
	harness.NonTrivialDistinct(n2)
	harness.Exhaustive(subC12Cover.Name+"/exhaustive-short", fmt.Sprintf("all lists [b, b+g1] and [b, b+g1, b+g1+g2], b in 0..20 and 65515..65535, g1 in 0..%d, g2 in -1..%d", maxGap, maxGap))

	// (iii) NackPair.PacketList / Range over (PacketID, bitmap) pairs
	var pids []uint16
	if harness.Thorough() {
		// all 2^32 pairs, sharded by PacketID
		lo, hi := harness.ShardRange(65536)
		for p := lo; p < hi; p++ {
			pids = append(pids, uint16(p))
		}
		harness.Exhaustive(subC12List.Name+"/pairs", "all 2^32 (PacketID, bitmap) pairs")
	} else {
		all := []uint16{}
		for k := 0; k < 22; k++ {
			all = append(all, uint16(k), uint16(0x7FF5+k), uint16(65535-k))
		}
		lo, hi := harness.ShardRange(int64(len(all)))
		pids = all[lo:hi]
		harness.Exhaustive(subC12List.Name+"/pairs", "all 2^16 bitmaps x 66 PacketIDs around 0, 0x7FFF, 0xFFFF")
	}
	var n3 int64
	for _, pid := range pids {
		for blp := 0; blp < 65536; blp++ {
			np := rtcp.NackPair{PacketID: pid, LostPackets: rtcp.PacketBitmap(blp)}
			got := np.PacketList()
			// fast reference inline; on any mismatch the full oracle reports
			ok := len(got) >= 1 && got[0] == pid
			k := 1
			for i := 0; i < 16 && ok; i++ {
				if blp>>uint(i)&1 == 1 {
					if k >= len(got) || got[k] != pid+uint16(i)+1 {
						ok = false
					}
					k++
				}
			}
			if !ok || k != len(got) {
				subC12List.Check(t, c12Pair{PID: pid, BLP: uint16(blp), StopAt: -1})
				t.Fatalf("fast path and oracle disagree for pid=%d blp=%#x", pid, blp)
			}
			n3++
		}
	}
	harness.Eval(subC12List.Name+"/pairs", n3)
	harness.NonTrivialDistinct(n3)
	harness.Sample(subC12List.Name, 1, c12Pair{PID: 65530, BLP: 0x8421, StopAt: -1})

	// (iv) early stop at every position 0..17, for every bitmap x a few PacketIDs
	stopPids := []uint16{0, 1, 0x7FFF, 65520, 65535}
	if harness.Thorough() {
		for k := 0; k < 64; k++ {
			stopPids = append(stopPids, uint16(k*1021+7))
		}
	}
	lo, hi = harness.ShardRange(65536)
	var n4 int64
	for _, pid := range stopPids {
		for blp := lo; blp < hi; blp++ {
			for stop := 0; stop <= 17; stop++ {
				c := c12Pair{PID: pid, BLP: uint16(blp), StopAt: stop}
				if err := subC12List.Oracle(c, nil); err != nil {
					subC12List.Check(t, c)
				}
				n4++
			}
		}
	}
	harness.Eval(subC12List.Name+"/early-stop", n4)
	harness.NonTrivialDistinct(n4)
	harness.Exhaustive(subC12List.Name+"/early-stop", fmt.Sprintf("all 2^16 bitmaps x stop positions 0..17 x %d PacketIDs", len(stopPids)))
	harness.Sample(subC12List.Name, 2, c12Pair{PID: 65535, BLP: 0xFFFF, StopAt: 3})
}
