package checks

import (
	"pgregory.net/rapid"

	"verif/gen"
)

// fuzzSeeds is the deterministic seed corpus of the native fuzz targets: reference
// encodings of every type plus the hostile mutations of gen.HostileBytes (small ones).
func fuzzSeeds() [][]byte {
	g := rapid.Custom(func(t *rapid.T) []byte {
		_, b := gen.HostileBytes(t, false)
		return b
	})
	var out [][]byte
	for i := 0; i < 160; i++ {
		b := g.Example(i)
		if len(b) <= 2048 {
			out = append(out, b)
		}
	}
	out = append(out, []byte{}, []byte{0x80, 200, 0, 0}, []byte{0x84, 206, 0, 0, 0, 0, 0, 0}, []byte{0x82, 205, 0, 1, 0, 0, 0, 0})
	return out
}
