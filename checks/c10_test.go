package checks

import (
	"fmt"
	"testing"

	"github.com/pion/rtcp"
	"pgregory.net/rapid"

	"verif/conv"
	"verif/harness"
	m "verif/refmodel"
)

func eq32(a, b []uint32) bool {
	if len(a) != len(b) {
		return false
	}
	for i := range a {
		if a[i] != b[i] {
			return false
		}
	}
	return true
}

// C10: DestinationSSRC lists exactly the SSRCs the packet refers to, for the value built
// in memory and for the same packet after an encode/decode round trip.
var subC10 = harness.NewSub("c10-destination-ssrc", func(c valCase, d harness.Dialect) error {
	want := m.DestSSRC(c.P)
	pk := conv.ToPion(c.P)
	got := pk.DestinationSSRC()
	if !eq32(got, want) {
		return fmt.Errorf("%s built in memory: DestinationSSRC() = %v, want %v\nvalue: %s", c.P.Kind, got, want, conv.JSON(c.P))
	}
	// calling it must not change the packet
	if back, err := conv.FromPion(pk); err != nil || !conv.Equal(back, c.P) {
		return fmt.Errorf("%s: packet changed by DestinationSSRC(): %v", c.P.Kind, err)
	}
	// after a round trip (the type's own decoder; the datagram path is covered by C02)
	if d.Has("ccfb-one-metric-block") && ccfbHasOneMetricBlock(c.P) {
		return nil
	}
	if d.Has("ccfb-rejects-seq-wrap") && ccfbSpansWrap(c.P) {
		return nil
	}
	b, err := pk.Marshal()
	if err != nil {
		return fmt.Errorf("Marshal rejected a well-formed %s: %v", c.P.Kind, err)
	}
	recv := conv.New(c.P.Kind)
	if err := recv.Unmarshal(b); err != nil {
		return fmt.Errorf("%s: own decoder rejects own output: %v", c.P.Kind, err)
	}
	got2 := recv.DestinationSSRC()
	if c.P.Kind == m.KCOMPOUND && d.Has("sli-pt-205") {
		if cp, ok := recv.(*rtcp.CompoundPacket); ok && len(*cp) > 0 {
			if _, isRaw := (*cp)[0].(*rtcp.RawPacket); isRaw {
				return nil
			}
		}
	}
	if !eq32(got2, want) {
		return fmt.Errorf("%s after encode/decode: DestinationSSRC() = %v, want %v\nvalue: %s", c.P.Kind, got2, want, conv.JSON(c.P))
	}
	return nil
})

func TestC10(t *testing.T) {
	defer harness.Uncaught(t)
	harness.RapidCheck(t, harness.Scale(8000, 60000), 10, func(rt *rapid.T) {
		c := valCase{P: genValue(rt)}
		n := len(m.DestSSRC(c.P))
		harness.Record(subC10.Name, c, n == 0 || n >= 2, append(classesOf(c.P), fmt.Sprintf("destlen:%s", lenBucket(n)))...)
		subC10.Check(rt, c)
	})
}

func lenBucket(n int) string {
	switch {
	case n == 0:
		return "0"
	case n == 1:
		return "1"
	case n <= 5:
		return "2-5"
	case n <= 31:
		return "6-31"
	}
	return "32+"
}
