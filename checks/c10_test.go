package checks

import (
	"fmt"
	"testing"

	"github.com/pion/rtcp"
	"pgregory.net/rapid"

	"verif/conv"
	"verif/harness"
	m "verif/refmodel"
)

func eq32(a, b []uint32) bool {
	if len(a) != len(b) {
		return false
	}
	for i := range a {
		if a[i] != b[i] {
			return false
		}
	}
	return true
}

// C10: DestinationSSRC lists exactly the SSRCs the packet refers to, for the value built
// in memory and for the same packet after an encode/decode round trip.
var subC10 = harness.NewSub("c10-destination-ssrc", func(c valCase, d harness.Dialect) error {
	want := m.DestSSRC(c.P)
	pk := conv.ToPion(c.P)
	got := pk.DestinationSSRC()
	if !eq32(got, want) {
		return fmt.Errorf("%s built in memory: DestinationSSRC() = %v, want %v\nvalue: %s", c.P.Kind, got, want, conv.JSON(c.P))
	}
	// calling it must not change the packet
	if back, err := conv.FromPion(pk); err != nil || !conv.Equal(back, c.P) {
		return fmt.Errorf("%s: packet changed by DestinationSSRC(): %v", c.P.Kind, err)
	}
	// after a round trip (the type's own decoder; the datagram path is covered by C02)
	if d.Has("ccfb-one-metric-block") && ccfbHasOneMetricBlock(c.P) {
		return nil
	}
	if d.Has("ccfb-rejects-seq-wrap") && ccfbSpansWrap(c.P) {
		return nil
	}
	b, err := pk.Marshal()
	if err != nil {
		return fmt.Errorf("Marshal rejected a well-formed %s: %v", c.P.Kind, err)
	}
	recv := conv.New(c.P.Kind)
	if err := recv.Unmarshal(b); err != nil {
		return fmt.Errorf("%s: own decoder rejects own output: %v", c.P.Kind, err)
	}
	got2 := recv.DestinationSSRC()
	if c.P.Kind == m.KCOMPOUND && d.Has("sli-pt-205") {
		if cp, ok := recv.(*rtcp.CompoundPacket); ok && len(*cp) > 0 {
			if _, isRaw := (*cp)[0].(*rtcp.RawPacket); isRaw {
				return nil
			}
		}
	}
	if !eq32(got2, want) {
		return fmt.Errorf("%s after encode/decode: DestinationSSRC() = %v, want %v\nvalue: %s", c.P.Kind, got2, want, conv.JSON(c.P))
	}
	return nil
})

// c10MaximalLists: "including empty and maximal lists" - the longest list each type's wire
// format holds (31 report blocks, chunks or sources, 253 NACK pairs, 255 REMB SSRCs, 32766 FIR
// entries, 8 CCFB blocks filling the packet, an XR with as many DLRR sub-blocks as fit), with
// distinct SSRCs so that order, duplicates and a missing tail all show.
func c10MaximalLists() []m.Packet {
	rb := func(n int) []m.RBlock {
		out := make([]m.RBlock, n)
		for i := range out {
			out[i] = m.RBlock{SSRC: 0x1000 + uint32(i)}
		}
		return out
	}
	u32s := func(n int, base uint32) []uint32 {
		out := make([]uint32, n)
		for i := range out {
			out[i] = base + uint32(i)
		}
		return out
	}
	sdes := &m.SDES{}
	for i := 0; i < 31; i++ {
		sdes.Chunks = append(sdes.Chunks, m.SDESChunk{Source: 0x2000 + uint32(i), Items: []m.SDESItem{{Type: 1, Text: []byte("c")}}})
	}
	nack := &m.NACK{Sender: 1, Media: 0x3000}
	for i := 0; i < 253; i++ {
		nack.Pairs = append(nack.Pairs, m.NackPair{PID: uint16(i * 20), BLP: uint16(i)})
	}
	fir := &m.FIR{Sender: 1, Media: 2, Entries: make([]m.FIREntry, 32766)}
	for i := range fir.Entries {
		fir.Entries[i] = m.FIREntry{SSRC: 0x40000 + uint32(i), Seq: uint8(i)}
	}
	fir2 := &m.FIR{Sender: 1, Media: 2, Entries: make([]m.FIREntry, 8193)}
	for i := range fir2.Entries {
		fir2.Entries[i] = m.FIREntry{SSRC: 0x50000 + uint32(i), Seq: uint8(i)}
	}
	dlrr := m.XRBlock{BT: m.XRDLRR}
	for i := 0; i < 5000; i++ {
		dlrr.Subs = append(dlrr.Subs, m.DLRRSub{SSRC: 0x60000 + uint32(i), LastRR: uint32(i), DLRR: 7})
	}
	out := []m.Packet{
		{Kind: m.KSR, SR: &m.SR{SSRC: 9, Reports: rb(31)}},
		{Kind: m.KRR, RR: &m.RR{SSRC: 9, Reports: rb(31)}},
		{Kind: m.KSDES, SDES: sdes},
		{Kind: m.KBYE, BYE: &m.BYE{Sources: u32s(31, 0x7000)}},
		{Kind: m.KNACK, NACK: nack},
		{Kind: m.KREMB, REMB: &m.REMB{Sender: 1, Bitrate: 1e6, SSRCs: u32s(255, 0x8000)}},
		{Kind: m.KFIR, FIR: fir},
		{Kind: m.KFIR, FIR: fir2},
		{Kind: m.KXR, XR: &m.XR{Sender: 3, Blocks: []m.XRBlock{dlrr}}},
	}
	for _, p := range c02MaxSizeValues() {
		if p.Kind == m.KCCFB {
			out = append(out, p)
		}
	}
	return out
}

func TestC10(t *testing.T) {
	defer harness.Uncaught(t)
	if harness.Cfg.Shard == 0 {
		for _, p := range c10MaximalLists() {
			subC10.Check(t, valCase{P: p})
			harness.Eval(subC10.Name+"/maximal-list", 1)
			harness.Class("maximal-list:"+string(p.Kind), 1)
			harness.NonTrivialDistinct(1)
		}
	}
	harness.RapidCheck(t, harness.Scale(8000, 60000), 10, func(rt *rapid.T) {
		c := valCase{P: genValue(rt)}
		n := len(m.DestSSRC(c.P))
		harness.Record(subC10.Name, c, n == 0 || n >= 2, append(classesOf(c.P), fmt.Sprintf("destlen:%s", lenBucket(n)))...)
		subC10.Check(rt, c)
	})
}

func lenBucket(n int) string {
	switch {
	case n == 0:
		return "0"
	case n == 1:
		return "1"
	case n <= 5:
		return "2-5"
	case n <= 31:
		return "6-31"
	}
	return "32+"
}
