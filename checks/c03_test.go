package checks

import (
	"fmt"
	"testing"

	"pgregory.net/rapid"

	"verif/conv"
	"verif/harness"
	m "verif/refmodel"
)

// C03: Marshal emits exactly the RFC wire layout (differential against the reference encoder).
var subC03 = harness.NewSub("c03-marshal-vs-reference", func(c valCase, d harness.Dialect) error {
	want, werr := m.Encode(c.P, &m.EncOpts{D: d.Ref()})
	if werr != nil {
		return fmt.Errorf("GENERATOR BUG: reference cannot encode a D-value: %v", werr)
	}
	pk := conv.ToPion(c.P)
	got, err := pk.Marshal()
	if err != nil {
		return fmt.Errorf("Marshal rejected a well-formed %s: %v\nvalue: %s", c.P.Kind, err, conv.JSON(c.P))
	}
	if i := firstDiff(got, want.B, want.DontCare); i >= 0 {
		return fmt.Errorf("%s: Marshal output differs from the specified encoding at octet %d (lengths %d vs %d)\n got: %s\nwant: %s\nvalue: %s",
			c.P.Kind, i, len(got), len(want.B), hexs(got), hexs(want.B), conv.JSON(c.P))
	}
	return nil
})

func c03NonTrivial(p m.Packet) bool { return valueNonTrivial(p) }

func TestC03(t *testing.T) {
	defer harness.Uncaught(t)
	harness.RapidCheck(t, harness.Scale(6000, 40000), 3, func(rt *rapid.T) {
		c := valCase{P: genValue(rt)}
		harness.Record(subC03.Name, c, c03NonTrivial(c.P), classesOf(c.P)...)
		subC03.Check(rt, c)
	})
}
