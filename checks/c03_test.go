package checks

import (
	"fmt"
	"testing"

	"github.com/pion/rtcp"
	"pgregory.net/rapid"

	"verif/conv"
	"verif/gen"
	"verif/harness"
	m "verif/refmodel"
)

// C03: Marshal emits exactly the RFC wire layout (differential against the reference encoder).
var subC03 = harness.NewSub("c03-marshal-vs-reference", func(c valCase, d harness.Dialect) error {
	want, werr := m.Encode(c.P, &m.EncOpts{D: d.Ref()})
	if werr != nil {
		return fmt.Errorf("GENERATOR BUG: reference cannot encode a D-value: %v", werr)
	}
	pk := conv.ToPion(c.P)
	if x, ok := pk.(*rtcp.ExtendedReport); ok && c.Junk != 0 {
		// the blocks' exported header fields are Marshal's to fill in; what they held before (a
		// decode of other bytes, a reused struct) must not reach the wire
		c15ApplyJunk(x, c.Junk)
	}
	got, err := pk.Marshal()
	if err != nil {
		return fmt.Errorf("Marshal rejected a well-formed %s: %v\nvalue: %s", c.P.Kind, err, conv.JSON(c.P))
	}
	if i := firstDiff(got, want.B, want.DontCare); i >= 0 {
		return fmt.Errorf("%s: Marshal output differs from the specified encoding at octet %d (lengths %d vs %d)\n got: %s\nwant: %s\nvalue: %s",
			c.P.Kind, i, len(got), len(want.B), hexs(got), hexs(want.B), conv.JSON(c.P))
	}
	if r, ok := pk.(*rtcp.ReceiverEstimatedMaximumBitrate); ok {
		// REMB's second encoder: into a caller's buffer that is larger and not zeroed
		buf := make([]byte, len(want.B)+8)
		for i := range buf {
			buf[i] = 0xA5
		}
		n, err := r.MarshalTo(buf)
		if err != nil || n != len(want.B) {
			return fmt.Errorf("REMB.MarshalTo(%d-octet buffer) = %d, %v; want %d, nil", len(buf), n, err, len(want.B))
		}
		if i := firstDiff(buf[:n], want.B, want.DontCare); i >= 0 {
			return fmt.Errorf("REMB.MarshalTo into a non-zero buffer differs from the specified encoding at octet %d\n got: %s\nwant: %s", i, hexs(buf[:n]), hexs(want.B))
		}
		for i := n; i < len(buf); i++ {
			if buf[i] != 0xA5 {
				return fmt.Errorf("REMB.MarshalTo wrote past the %d octets it reports (octet %d)", n, i)
			}
		}
		if n2, err := r.MarshalTo(make([]byte, len(want.B)-1)); err == nil {
			return fmt.Errorf("REMB.MarshalTo into a buffer one octet short returned %d, nil", n2)
		}
	}
	return nil
})

func c03NonTrivial(p m.Packet) bool { return valueNonTrivial(p) }

// c03CodePoint is one registered number the library exports under a name. A sender that builds
// packets from these names emits the registered value only if the constant carries it; the
// generated values above use plain numbers, so the names need their own (finite, complete) table.
type c03CodePoint struct {
	Name string
	Got  uint64
	Want uint64
	Ref  string
}

func c03CodePoints() []c03CodePoint {
	return []c03CodePoint{
		{"TypeSenderReport", uint64(rtcp.TypeSenderReport), 200, "RFC 3550 6.4.1"},
		{"TypeReceiverReport", uint64(rtcp.TypeReceiverReport), 201, "RFC 3550 6.4.2"},
		{"TypeSourceDescription", uint64(rtcp.TypeSourceDescription), 202, "RFC 3550 6.5"},
		{"TypeGoodbye", uint64(rtcp.TypeGoodbye), 203, "RFC 3550 6.6"},
		{"TypeApplicationDefined", uint64(rtcp.TypeApplicationDefined), 204, "RFC 3550 6.7"},
		{"TypeTransportSpecificFeedback", uint64(rtcp.TypeTransportSpecificFeedback), 205, "RFC 4585 6.1"},
		{"TypePayloadSpecificFeedback", uint64(rtcp.TypePayloadSpecificFeedback), 206, "RFC 4585 6.1"},
		{"TypeExtendedReport", uint64(rtcp.TypeExtendedReport), 207, "RFC 3611 2"},
		{"FormatSLI", uint64(rtcp.FormatSLI), 2, "RFC 4585 6.3"},
		{"FormatPLI", uint64(rtcp.FormatPLI), 1, "RFC 4585 6.3"},
		{"FormatFIR", uint64(rtcp.FormatFIR), 4, "RFC 5104 4.3"},
		{"FormatTLN", uint64(rtcp.FormatTLN), 1, "RFC 4585 6.2"},
		{"FormatRRR", uint64(rtcp.FormatRRR), 5, "RFC 6051 3.2"},
		{"FormatCCFB", uint64(rtcp.FormatCCFB), 11, "RFC 8888 3.1"},
		{"FormatREMB", uint64(rtcp.FormatREMB), 15, "draft-alvestrand-rmcat-remb 2.2"},
		{"FormatTCC", uint64(rtcp.FormatTCC), 15, "draft-holmer-rmcat-transport-wide-cc-extensions 3.1"},
		{"SDESEnd", uint64(rtcp.SDESEnd), 0, "RFC 3550 6.5"},
		{"SDESCNAME", uint64(rtcp.SDESCNAME), 1, "RFC 3550 6.5.1"},
		{"SDESName", uint64(rtcp.SDESName), 2, "RFC 3550 6.5.2"},
		{"SDESEmail", uint64(rtcp.SDESEmail), 3, "RFC 3550 6.5.3"},
		{"SDESPhone", uint64(rtcp.SDESPhone), 4, "RFC 3550 6.5.4"},
		{"SDESLocation", uint64(rtcp.SDESLocation), 5, "RFC 3550 6.5.5"},
		{"SDESTool", uint64(rtcp.SDESTool), 6, "RFC 3550 6.5.6"},
		{"SDESNote", uint64(rtcp.SDESNote), 7, "RFC 3550 6.5.7"},
		{"SDESPrivate", uint64(rtcp.SDESPrivate), 8, "RFC 3550 6.5.8"},
		{"LossRLEReportBlockType", uint64(rtcp.LossRLEReportBlockType), 1, "RFC 3611 4.1"},
		{"DuplicateRLEReportBlockType", uint64(rtcp.DuplicateRLEReportBlockType), 2, "RFC 3611 4.2"},
		{"PacketReceiptTimesReportBlockType", uint64(rtcp.PacketReceiptTimesReportBlockType), 3, "RFC 3611 4.3"},
		{"ReceiverReferenceTimeReportBlockType", uint64(rtcp.ReceiverReferenceTimeReportBlockType), 4, "RFC 3611 4.4"},
		{"DLRRReportBlockType", uint64(rtcp.DLRRReportBlockType), 5, "RFC 3611 4.5"},
		{"StatisticsSummaryReportBlockType", uint64(rtcp.StatisticsSummaryReportBlockType), 6, "RFC 3611 4.6"},
		{"VoIPMetricsReportBlockType", uint64(rtcp.VoIPMetricsReportBlockType), 7, "RFC 3611 4.7"},
		{"ToHMissing", uint64(rtcp.ToHMissing), 0, "RFC 3611 4.6"},
		{"ToHIPv4", uint64(rtcp.ToHIPv4), 1, "RFC 3611 4.6"},
		{"ToHIPv6", uint64(rtcp.ToHIPv6), 2, "RFC 3611 4.6"},
		{"TypeTCCRunLengthChunk", uint64(rtcp.TypeTCCRunLengthChunk), 0, "transport-wide-cc 3.1.3"},
		{"TypeTCCStatusVectorChunk", uint64(rtcp.TypeTCCStatusVectorChunk), 1, "transport-wide-cc 3.1.4"},
		{"TypeTCCPacketNotReceived", uint64(rtcp.TypeTCCPacketNotReceived), 0, "transport-wide-cc 3.1.1"},
		{"TypeTCCPacketReceivedSmallDelta", uint64(rtcp.TypeTCCPacketReceivedSmallDelta), 1, "transport-wide-cc 3.1.1"},
		{"TypeTCCPacketReceivedLargeDelta", uint64(rtcp.TypeTCCPacketReceivedLargeDelta), 2, "transport-wide-cc 3.1.1"},
		{"TypeTCCPacketReceivedWithoutDelta", uint64(rtcp.TypeTCCPacketReceivedWithoutDelta), 3, "transport-wide-cc 3.1.1"},
		{"TypeTCCSymbolSizeOneBit", uint64(rtcp.TypeTCCSymbolSizeOneBit), 0, "transport-wide-cc 3.1.4"},
		{"TypeTCCSymbolSizeTwoBit", uint64(rtcp.TypeTCCSymbolSizeTwoBit), 1, "transport-wide-cc 3.1.4"},
		{"TypeTCCDeltaScaleFactor", uint64(rtcp.TypeTCCDeltaScaleFactor), 250, "transport-wide-cc 3.1.5 (250 us units)"},
		{"ECNNonECT", uint64(rtcp.ECNNonECT), 0, "RFC 3168 5 (00)"},
		{"ECNECT1", uint64(rtcp.ECNECT1), 1, "RFC 3168 5 (01 = ECT(1))"},
		{"ECNECT0", uint64(rtcp.ECNECT0), 2, "RFC 3168 5 (10 = ECT(0))"},
		{"ECNCE", uint64(rtcp.ECNCE), 3, "RFC 3168 5 (11)"},
	}
}

type c03CodePointCase struct{ Name string }

var subC03CodePoints = harness.NewSub("c03-registered-code-points", func(c c03CodePointCase, _ harness.Dialect) error {
	for _, r := range c03CodePoints() {
		if r.Name == c.Name {
			if r.Got != r.Want {
				return fmt.Errorf("rtcp.%s = %d, the registered value is %d (%s)", r.Name, r.Got, r.Want, r.Ref)
			}
			return nil
		}
	}
	return fmt.Errorf("unknown code point %q", c.Name)
})

func TestC03(t *testing.T) {
	defer harness.Uncaught(t)
	harness.RapidCheck(t, harness.Scale(6000, 40000), 3, func(rt *rapid.T) {
		c := valCase{P: genValue(rt)}
		if c.P.Kind == m.KXR && rapid.Bool().Draw(rt, "xr.stale-headers") {
			c.Junk = gen.U32(rt, "xr.junk")
		}
		harness.Record(subC03.Name, c, c03NonTrivial(c.P), classesOf(c.P)...)
		subC03.Check(rt, c)
	})
	if harness.Cfg.Shard == 0 {
		rows := c03CodePoints()
		for _, r := range rows {
			subC03CodePoints.Check(t, c03CodePointCase{Name: r.Name})
		}
		harness.Eval(subC03CodePoints.Name, int64(len(rows)))
		harness.Exhaustive(subC03CodePoints.Name, fmt.Sprintf("all %d exported packet-type, format, SDES item, XR block, hop-limit kind, TWCC and ECN code points", len(rows)))
		harness.Sample(subC03CodePoints.Name, 1, c03CodePointCase{Name: "FormatCCFB"})
	}
}
