package checks

import (
	"bytes"
	"encoding/json"
	"fmt"
	"os"
	"path/filepath"
	"reflect"
	"runtime"
	"strings"
	"sync"
	"testing"

	"github.com/pion/rtcp"
	"pgregory.net/rapid"

	"verif/conv"
	"verif/gen"
	"verif/harness"
	m "verif/refmodel"
)

// C18: codec operations are pure and safe to run concurrently.

// deepDump renders every field reachable from v (following pointers and interfaces, reading
// unexported fields too), with nil and empty slices rendered alike.
func deepDump(v reflect.Value, sb *strings.Builder, depth int) {
	if depth > 12 {
		sb.WriteString("<deep>")
		return
	}
	if !v.IsValid() {
		sb.WriteString("<invalid>")
		return
	}
	switch v.Kind() {
	case reflect.Ptr:
		if v.IsNil() {
			sb.WriteString("nil")
			return
		}
		sb.WriteString("&")
		deepDump(v.Elem(), sb, depth+1)
	case reflect.Interface:
		if v.IsNil() {
			sb.WriteString("nil")
			return
		}
		sb.WriteString(v.Elem().Type().String())
		sb.WriteString(":")
		deepDump(v.Elem(), sb, depth+1)
	case reflect.Struct:
		sb.WriteString("{")
		for i := 0; i < v.NumField(); i++ {
			sb.WriteString(v.Type().Field(i).Name)
			sb.WriteString("=")
			deepDump(v.Field(i), sb, depth+1)
			sb.WriteString(" ")
		}
		sb.WriteString("}")
	case reflect.Slice, reflect.Array:
		if v.Kind() == reflect.Slice && v.Type().Elem().Kind() == reflect.Uint8 {
			fmt.Fprintf(sb, "x%x", v.Bytes())
			return
		}
		sb.WriteString("[")
		for i := 0; i < v.Len(); i++ {
			deepDump(v.Index(i), sb, depth+1)
			sb.WriteString(",")
		}
		sb.WriteString("]")
	case reflect.String:
		fmt.Fprintf(sb, "%q", v.String())
	case reflect.Bool:
		fmt.Fprintf(sb, "%v", v.Bool())
	case reflect.Int, reflect.Int8, reflect.Int16, reflect.Int32, reflect.Int64:
		fmt.Fprintf(sb, "%d", v.Int())
	case reflect.Uint, reflect.Uint8, reflect.Uint16, reflect.Uint32, reflect.Uint64:
		fmt.Fprintf(sb, "%d", v.Uint())
	case reflect.Float32, reflect.Float64:
		fmt.Fprintf(sb, "%x", v.Float())
	default:
		fmt.Fprintf(sb, "<%s>", v.Kind())
	}
}

func dump(p interface{}) string {
	var sb strings.Builder
	deepDump(reflect.ValueOf(p), &sb, 0)
	return sb.String()
}

// containsXR: ExtendedReport.Marshal is the one documented writer (it fills in the blocks' headers).
func containsXR(p rtcp.Packet) bool {
	switch v := p.(type) {
	case *rtcp.ExtendedReport:
		return true
	case *rtcp.CompoundPacket:
		for _, x := range *v {
			if containsXR(x) {
				return true
			}
		}
	}
	return false
}

// c18Ops are the operations of the property's statement.
var c18Ops = []string{"marshal", "size", "dest", "string", "header", "validate", "unmarshal-direct", "unmarshal-datagram", "marshal-list"}

// c18ListOf picks the members of a "marshal-list" step: two or three pool entries starting at
// idx (the package-level Marshal of a list of packets, whose members may have been decoded from
// - and alias - buffers that belong to the caller).
func c18ListOf(idx, n int) []int {
	out := []int{idx % n, (idx*7 + 3) % n}
	if idx%2 == 1 {
		out = append(out, (idx*5+1)%n)
	}
	return out
}

type c18Step struct {
	Op  string
	Idx int // packet index (or buffer index for the unmarshal ops)
}

// applyOp runs one operation and renders its result; usesBuffer tells which pool Idx refers to.
func applyOp(op string, pk rtcp.Packet, buf []byte) (res string, applicable bool) {
	switch op {
	case "marshal":
		b, err := pk.Marshal()
		return fmt.Sprintf("%x|%v", b, err), true
	case "size":
		return fmt.Sprint(pk.MarshalSize()), true
	case "dest":
		return fmt.Sprint(pk.DestinationSSRC()), true
	case "string":
		if s, ok := pk.(fmt.Stringer); ok {
			return s.String(), true
		}
		return fmt.Sprintf("%+v", pk), true
	case "header":
		if h, ok := pk.(headerer); ok {
			return fmt.Sprintf("%+v", h.Header()), true
		}
		if t, ok := pk.(*rtcp.TransportLayerCC); ok {
			return fmt.Sprint(t.Len()), true
		}
		return "", false
	case "validate":
		if c, ok := pk.(*rtcp.CompoundPacket); ok {
			n, err := c.CNAME()
			return fmt.Sprintf("%v|%q|%v", c.Validate(), n, err), true
		}
		return "", false
	case "unmarshal-direct":
		if len(buf) < 2 {
			return "", false
		}
		k := m.Dispatch(buf[1], buf[0]&0x1f, m.Strict)
		recv := conv.New(k)
		err := recv.Unmarshal(buf)
		return fmt.Sprintf("%s|%v", dump(recv), err), true
	case "unmarshal-datagram":
		ps, err := rtcp.Unmarshal(buf)
		return fmt.Sprintf("%s|%v", dump(ps), err), true
	}
	return "", false
}

// ---- (A) histories ----------------------------------------------------------------------

type c18History struct {
	Packets []m.Packet  // built in memory
	Decoded []m.Bytes   // packets obtained by decoding these (accepted) datagrams are added to the pool
	Direct  []c18Direct // packets decoded by a type's own decoder from a window of a larger buffer
	Buffers []m.Bytes   // input buffers for the unmarshal operations
	Steps   []c18Step
}

// c18Direct: Buf[:Hi] is handed to the decoder of Kind; the octets after Hi belong to the
// caller and must never change (decoded packets may alias the window).
type c18Direct struct {
	Kind m.Kind
	Buf  m.Bytes
	Hi   int
}

var subC18A = harness.NewSub("c18-history-purity", func(c c18History, _ harness.Dialect) error {
	var pool []rtcp.Packet
	for _, p := range c.Packets {
		pool = append(pool, conv.ToPion(p))
	}
	var keepAlive [][]byte
	for _, b := range c.Decoded {
		in := append([]byte(nil), b...)
		keepAlive = append(keepAlive, in)
		if ps, err := rtcp.Unmarshal(in); err == nil {
			pool = append(pool, ps...)
		}
	}
	for _, dd := range c.Direct {
		in := append(make([]byte, 0, len(dd.Buf)+8), dd.Buf...)
		keepAlive = append(keepAlive, in)
		c.Decoded = append(c.Decoded, dd.Buf) // pristine copy for the invariant below
		hi := dd.Hi
		if hi > len(in) {
			hi = len(in)
		}
		recv := conv.New(dd.Kind)
		if err := recv.Unmarshal(in[:hi]); err == nil {
			pool = append(pool, recv)
		}
	}
	if len(pool) == 0 {
		return nil
	}
	bufs := make([][]byte, len(c.Buffers))
	for i, b := range c.Buffers {
		bufs[i] = append([]byte(nil), b...)
	}
	snap := make([]string, len(pool))
	rebased := make([]bool, len(pool))
	for i, p := range pool {
		snap[i] = dump(p)
	}
	type key struct {
		op  string
		idx int
	}
	first := map[key]string{}
	type logged struct {
		live []byte // the slice that was returned (may alias the packet or the input)
		copy []byte
		what string
	}
	var results []logged
	check := func(step int, s c18Step) error {
		for i, p := range pool {
			if d := dump(p); d != snap[i] {
				return fmt.Errorf("step %d (%s on #%d): packet #%d (%s) was modified\nbefore: %.600s\nafter:  %.600s", step, s.Op, s.Idx, i, typeName(p), snap[i], d)
			}
		}
		for i := range bufs {
			if !bytes.Equal(bufs[i], c.Buffers[i]) {
				return fmt.Errorf("step %d (%s on #%d): input buffer #%d was modified", step, s.Op, s.Idx, i)
			}
		}
		for i := range keepAlive {
			if !bytes.Equal(keepAlive[i], c.Decoded[i]) {
				return fmt.Errorf("step %d (%s on #%d): the datagram packet pool entry %d was decoded from was modified", step, s.Op, s.Idx, i)
			}
		}
		for _, r := range results {
			if !bytes.Equal(r.live, r.copy) {
				return fmt.Errorf("step %d (%s on #%d): a result returned earlier (%s) changed afterwards - shared scratch buffer?", step, s.Op, s.Idx, r.what)
			}
		}
		return nil
	}
	for si, s := range c.Steps {
		isBuf := s.Op == "unmarshal-direct" || s.Op == "unmarshal-datagram"
		var res string
		var ok bool
		if isBuf {
			if len(bufs) == 0 {
				continue
			}
			res, ok = applyOp(s.Op, nil, bufs[s.Idx%len(bufs)])
		} else {
			i := s.Idx % len(pool)
			pk := pool[i]
			if s.Op == "marshal-list" {
				var list []rtcp.Packet
				members := c18ListOf(s.Idx%len(pool), len(pool))
				for _, j := range members {
					list = append(list, pool[j])
				}
				b, err := rtcp.Marshal(list)
				res, ok = fmt.Sprintf("%x|%v", b, err), true
				if err == nil && len(b) > 0 {
					results = append(results, logged{live: b, copy: append([]byte(nil), b...), what: fmt.Sprintf("Marshal of the list %v at step %d", members, si)})
				}
				for _, j := range members {
					if containsXR(pool[j]) && !rebased[j] {
						snap[j] = dump(pool[j])
						rebased[j] = true
						for _, o := range c18Ops {
							delete(first, key{o, j})
						}
						delete(first, key{s.Op, s.Idx % len(pool)})
					}
				}
			} else if s.Op == "marshal" {
				b, err := pk.Marshal()
				res, ok = fmt.Sprintf("%x|%v", b, err), true
				if err == nil && len(b) > 0 {
					results = append(results, logged{live: b, copy: append([]byte(nil), b...), what: fmt.Sprintf("Marshal of #%d at step %d", i, si)})
				}
				if containsXR(pk) && !rebased[i] {
					// documented: ExtendedReport.Marshal fills in its blocks' header fields; from now on it must be stable
					snap[i] = dump(pk)
					rebased[i] = true
					for _, o := range c18Ops { // results that show the header fields are re-based too
						delete(first, key{o, i})
					}
				}
			} else {
				res, ok = applyOp(s.Op, pk, nil)
			}
		}
		if !ok {
			continue
		}
		idx := s.Idx
		if isBuf {
			idx = s.Idx % len(bufs)
		} else {
			idx = s.Idx % len(pool)
		}
		k := key{s.Op, idx}
		if prev, seen := first[k]; seen {
			if prev != res {
				return fmt.Errorf("step %d: %s on #%d returned a different result than the first time it was called\nfirst: %.500s\nnow:   %.500s", si, s.Op, idx, prev, res)
			}
		} else {
			first[k] = res
		}
		if err := check(si, s); err != nil {
			return err
		}
	}
	return nil
})

func genC18Direct(t *rapid.T) []c18Direct {
	var out []c18Direct
	for i := rapid.IntRange(0, 2).Draw(t, "ndirect"); i > 0; i-- {
		k := rapid.SampledFrom([]m.Kind{m.KRR, m.KSR, m.KRR, m.KSDES, m.KBYE, m.KAPP, m.KNACK, m.KTWCC, m.KCCFB, m.KXR, m.KREMB, m.KFIR, m.KPLI, m.KRAW, m.KRAW}).Draw(t, "direct.kind")
		p := gen.PacketOf(t, k)
		shrinkBig(p)
		e, err := m.Encode(p, &m.EncOpts{D: gen.PionDialect})
		if err != nil || len(e.B) > 4096 {
			continue
		}
		extra := gen.BytesN(t, rapid.IntRange(1, 9).Draw(t, "direct.extra"), "direct.tail")
		for j := range extra {
			if extra[j] == 0 {
				extra[j] = 0xA5 // zero padding written past the window would otherwise be invisible
			}
		}
		buf := append(append([]byte(nil), e.B...), extra...)
		hi := len(e.B) + rapid.IntRange(0, len(extra)-1).Draw(t, "direct.hi")
		out = append(out, c18Direct{Kind: k, Buf: buf, Hi: hi})
	}
	return out
}

func genC18Pool(t *rapid.T, maxPackets int) ([]m.Packet, []m.Bytes, []m.Bytes) {
	var packets []m.Packet
	for i := rapid.IntRange(1, maxPackets).Draw(t, "npackets"); i > 0; i-- {
		p := genValue(t)
		shrinkBig(p)
		packets = append(packets, p)
	}
	var decoded, buffers []m.Bytes
	for i := rapid.IntRange(0, 2).Draw(t, "ndecoded"); i > 0; i-- {
		_, b := genAcceptedish(t, false)
		if len(b) <= 4096 {
			decoded = append(decoded, b)
		}
	}
	for i := rapid.IntRange(1, 3).Draw(t, "nbuffers"); i > 0; i-- {
		_, b := gen.HostileBytes(t, false)
		if len(b) > 4096 {
			b = b[:4096]
		}
		buffers = append(buffers, b)
	}
	return packets, decoded, buffers
}

// shrinkBig keeps printing/dumping costs bounded (see c17MaxInput).
func shrinkBig(p m.Packet) {
	for _, x := range leafKindsOf(p) {
		if x.Kind == m.KCCFB {
			for i := range x.CCFB.Blocks {
				if len(x.CCFB.Blocks[i].Metrics) > 64 {
					x.CCFB.Blocks[i].Metrics = x.CCFB.Blocks[i].Metrics[:64]
				}
			}
		}
		if x.Kind == m.KAPP && len(x.APP.Data) > 512 {
			x.APP.Data = x.APP.Data[:512]
		}
	}
}

// ---- (A2) repeated Unmarshal into one receiver --------------------------------------------

// c18Reuse: A is decoded into a receiver (whatever the outcome), then B is decoded into the
// same receiver. "Repeated calls return identical results regardless of what was called
// before": the second call must succeed exactly when decoding B into a fresh receiver does,
// and must leave the receiver equal to the fresh one.
type c18Reuse struct {
	Kind m.Kind `json:",omitempty"`
	Sub  string `json:",omitempty"` // an exported sub-structure decoder instead of a packet type
	A, B m.Bytes
}

// c18SubReceiver returns a fresh receiver of an exported sub-structure and its decoder.
func c18SubReceiver(name string) (interface{}, func([]byte) error) {
	switch name {
	case "Header":
		r := new(rtcp.Header)
		return r, r.Unmarshal
	case "ReceptionReport":
		r := new(rtcp.ReceptionReport)
		return r, r.Unmarshal
	case "SourceDescriptionChunk":
		r := new(rtcp.SourceDescriptionChunk)
		return r, r.Unmarshal
	case "SourceDescriptionItem":
		r := new(rtcp.SourceDescriptionItem)
		return r, r.Unmarshal
	case "RunLengthChunk":
		r := new(rtcp.RunLengthChunk)
		return r, r.Unmarshal
	case "StatusVectorChunk":
		r := new(rtcp.StatusVectorChunk)
		return r, r.Unmarshal
	case "RecvDelta":
		r := new(rtcp.RecvDelta)
		return r, r.Unmarshal
	}
	return nil, nil
}

func c18Dump(v interface{}) string {
	var sb strings.Builder
	deepDump(reflect.ValueOf(v), &sb, 0)
	return sb.String()
}

var subC18Reuse = harness.NewSub("c18-unmarshal-into-used-receiver", func(c c18Reuse, _ harness.Dialect) error {
	if c.Sub != "" {
		fresh, decF := c18SubReceiver(c.Sub)
		if fresh == nil {
			return fmt.Errorf("unknown sub-decoder %q", c.Sub)
		}
		errF := decF(exactCopy(c.B))
		used, decU := c18SubReceiver(c.Sub)
		_ = decU(exactCopy(c.A))
		errU := decU(exactCopy(c.B))
		if (errF == nil) != (errU == nil) {
			return fmt.Errorf("%s: decoding B into a fresh receiver gives error %v, into a receiver that decoded A before gives %v\nA: %s\nB: %s", c.Sub, errF, errU, hexs(c.A), hexs(c.B))
		}
		if errF != nil {
			return nil
		}
		if df, du := c18Dump(fresh), c18Dump(used); df != du {
			return fmt.Errorf("%s: the result of Unmarshal(B) depends on what the receiver decoded before\nfresh receiver: %s\nused receiver:  %s\nA: %s\nB: %s", c.Sub, df, du, hexs(c.A), hexs(c.B))
		}
		return nil
	}
	fresh := conv.New(c.Kind)
	errF := fresh.Unmarshal(exactCopy(c.B))
	used := conv.New(c.Kind)
	_ = used.Unmarshal(exactCopy(c.A))
	errU := used.Unmarshal(exactCopy(c.B))
	if (errF == nil) != (errU == nil) {
		return fmt.Errorf("%s: decoding B into a fresh receiver gives error %v, into a receiver that decoded A before gives %v\nA: %s\nB: %s", conv.GoType(c.Kind), errF, errU, hexs(c.A), hexs(c.B))
	}
	if errF != nil {
		return nil
	}
	mf, e1 := conv.FromPion(fresh)
	mu, e2 := conv.FromPion(used)
	if e1 != nil || e2 != nil {
		return fmt.Errorf("HARNESS: %v %v", e1, e2)
	}
	if !conv.Equal(mf, mu) {
		return fmt.Errorf("%s: the result of Unmarshal(B) depends on what the receiver decoded before\nfresh receiver: %s\nused receiver:  %s\nA: %s\nB: %s", conv.GoType(c.Kind), conv.JSON(mf), conv.JSON(mu), hexs(c.A), hexs(c.B))
	}
	return nil
})

// genC18SubReuse draws two inputs for one sub-structure decoder: mostly well-formed ones of
// different shapes (so that the first leaves something behind that the second does not
// overwrite by itself), sometimes arbitrary bytes.
func genC18SubReuse(t *rapid.T) c18Reuse {
	name := rapid.SampledFrom(c01SubNames).Draw(t, "sub")
	one := func(label string) []byte {
		if rapid.IntRange(0, 5).Draw(t, label+".raw") == 0 {
			return gen.BytesN(t, rapid.IntRange(0, 40).Draw(t, label+".n"), label+".bytes")
		}
		switch name {
		case "Header":
			b := gen.BytesN(t, 4, label)
			b[0] = b[0]&0x3F | 0x80
			return b
		case "ReceptionReport":
			return gen.BytesN(t, 24, label)
		case "SourceDescriptionItem", "SourceDescriptionChunk":
			var b []byte
			if name == "SourceDescriptionChunk" {
				b = gen.BytesN(t, 4, label+".src")
			}
			for i := rapid.IntRange(0, 4).Draw(t, label+".items"); i > 0 || (name == "SourceDescriptionItem" && len(b) == 0); i-- {
				txt := gen.BytesN(t, rapid.IntRange(0, 9).Draw(t, label+".len"), label+".txt")
				b = append(append(b, byte(rapid.IntRange(1, 8).Draw(t, label+".type")), byte(len(txt))), txt...)
				if name == "SourceDescriptionItem" {
					return b
				}
			}
			b = append(b, 0)
			for len(b)%4 != 0 {
				b = append(b, 0)
			}
			return b
		case "RecvDelta":
			return gen.BytesN(t, rapid.IntRange(1, 2).Draw(t, label+".n"), label)
		default: // the two chunk decoders: any 16-bit word
			return gen.BytesN(t, 2, label)
		}
	}
	return c18Reuse{Sub: name, A: one("A"), B: one("B")}
}

func genC18Reuse(t *rapid.T) c18Reuse {
	k := rapid.SampledFrom(m.TypedKinds).Draw(t, "reuse.kind")
	enc := func(label string) []byte {
		p := gen.PacketOf(t, k)
		shrinkBig(p)
		p = c06Readable(p)
		e, err := m.Encode(p, &m.EncOpts{D: gen.PionDialect})
		if err != nil {
			panic(err)
		}
		b := e.B
		switch rapid.IntRange(0, 5).Draw(t, label+".mut") {
		case 0:
			gen.MutateHeader(t, b)
		case 1:
			gen.MutateField(t, b)
		case 2:
			if len(b) > 8 {
				b = b[:rapid.IntRange(4, len(b)-1).Draw(t, label+".cut")]
			}
		case 3:
			// a frame whose header does not parse (version, or fewer than four octets): whatever
			// the receiver kept from the call before must not make it acceptable
			if rapid.Bool().Draw(t, label+".short") {
				b = b[:rapid.IntRange(0, 3).Draw(t, label+".len")]
			} else {
				b[0] = b[0]&0x3F | byte(rapid.SampledFrom([]int{0, 1, 3}).Draw(t, label+".version"))<<6
			}
		}
		return b
	}
	return c18Reuse{Kind: k, A: enc("A"), B: enc("B")}
}

// ---- (B) schedules ----------------------------------------------------------------------

type c18Target struct {
	Op     string
	Shared bool
	Idx    int
}

type c18Script struct {
	Procs   int
	Shared  []m.Packet
	Buffers []m.Bytes     // shared input buffers
	Own     [][]m.Packet  // per goroutine
	Ops     [][]c18Target // per goroutine
}

func runScript(c c18Script, concurrent bool) [][]string {
	shared := make([]rtcp.Packet, len(c.Shared))
	for i, p := range c.Shared {
		shared[i] = conv.ToPion(p)
	}
	bufs := make([][]byte, len(c.Buffers))
	for i, b := range c.Buffers {
		bufs[i] = append([]byte(nil), b...)
	}
	G := len(c.Ops)
	out := make([][]string, G)
	own := make([][]rtcp.Packet, G)
	for g := 0; g < G; g++ {
		for _, p := range c.Own[g] {
			own[g] = append(own[g], conv.ToPion(p))
		}
	}
	work := func(g int) {
		for _, op := range c.Ops[g] {
			var res string
			switch {
			case op.Op == "unmarshal-direct" || op.Op == "unmarshal-datagram":
				if len(bufs) == 0 {
					continue
				}
				res, _ = applyOp(op.Op, nil, bufs[op.Idx%len(bufs)])
			case op.Shared:
				if len(shared) == 0 {
					continue
				}
				pk := shared[op.Idx%len(shared)]
				if op.Op == "marshal" && containsXR(pk) {
					continue // the documented writer is not a read-only operation
				}
				res, _ = applyOp(op.Op, pk, nil)
			case op.Op == "marshal-list":
				if len(own[g]) == 0 {
					continue
				}
				b, err := rtcp.Marshal(own[g])
				res = fmt.Sprintf("%x|%v", b, err)
			default:
				if len(own[g]) == 0 {
					continue
				}
				res, _ = applyOp(op.Op, own[g][op.Idx%len(own[g])], nil)
			}
			out[g] = append(out[g], res)
		}
	}
	if !concurrent {
		for g := 0; g < G; g++ {
			work(g)
		}
		return out
	}
	var wg sync.WaitGroup
	start := make(chan struct{})
	for g := 0; g < G; g++ {
		wg.Add(1)
		go func(g int) {
			defer wg.Done()
			<-start
			work(g)
		}(g)
	}
	close(start)
	wg.Wait()
	return out
}

var subC18B = harness.NewSub("c18-concurrent-script", func(c c18Script, _ harness.Dialect) error {
	// The concurrent runs come FIRST: lazily initialised package state (a cache filled on first
	// use) is only racy while it is cold, and a sequential warm-up pass would hide it. The
	// sequential reference is computed afterwards.
	prev := runtime.GOMAXPROCS(0)
	if c.Procs > 0 {
		runtime.GOMAXPROCS(c.Procs)
	}
	var gots [][][]string
	for rep := 0; rep < 2; rep++ {
		gots = append(gots, runScript(c, true))
	}
	runtime.GOMAXPROCS(prev)
	want := runScript(c, false)
	for _, got := range gots {
		for g := range want {
			if len(got[g]) != len(want[g]) {
				return fmt.Errorf("goroutine %d produced %d results concurrently, %d sequentially", g, len(got[g]), len(want[g]))
			}
			for i := range want[g] {
				if got[g][i] != want[g][i] {
					return fmt.Errorf("goroutine %d, operation %d (%+v): concurrent result differs from the sequential run\nsequential: %.400s\nconcurrent: %.400s", g, i, c.Ops[g][i], want[g][i], got[g][i])
				}
			}
		}
	}
	return nil
})

// writeCurrent leaves the running script on disk so that a race report (which halts the
// process) still comes with its reproduction.
func writeCurrent(sub string, c interface{}) {
	if harness.Cfg.OutDir == "" {
		return
	}
	cb, _ := json.Marshal(c)
	ff := harness.FailFile{Prop: harness.Cfg.Prop, Sub: sub, Message: "the race detector reported a data race while this script was running (see the log next to this file)", Case: cb}
	b, _ := json.Marshal(ff)
	_ = os.WriteFile(filepath.Join(harness.Cfg.OutDir, fmt.Sprintf("current-%d.json", harness.Cfg.Shard)), b, 0o644)
}

func genC18Script(t *rapid.T, opsPer int) c18Script {
	c := c18Script{Procs: rapid.SampledFrom([]int{2, 16}).Draw(t, "procs")}
	G := rapid.SampledFrom([]int{4, 16, 32}).Draw(t, "goroutines")
	for i := rapid.IntRange(2, 5).Draw(t, "nshared"); i > 0; i-- {
		p := genValue(t)
		shrinkBig(p)
		c.Shared = append(c.Shared, p)
	}
	for i := rapid.IntRange(1, 3).Draw(t, "nbuffers"); i > 0; i-- {
		_, b := genAcceptedish(t, false)
		if len(b) > 2048 {
			_, b = gen.SeedEncoding(t)
			if len(b) > 2048 {
				b = []byte{0x80, 201, 0, 1, 0, 0, 0, 1}
			}
		}
		c.Buffers = append(c.Buffers, b)
	}
	// a small set of own-packet templates, reused across goroutines (distinct structs are built per goroutine)
	// every packet kind must get its turn under the race detector: the kinds rotate with a drawn
	// offset, so over the scripts of one run all 15 leaf kinds (and compounds) are marshalled,
	// printed and decoded by several goroutines at once
	var templates []m.Packet
	rot := rapid.IntRange(0, len(gen.LeafKinds)-1).Draw(t, "kind.rot")
	for i := 0; i < 4; i++ {
		var p m.Packet
		if i == 3 && rapid.IntRange(0, 3).Draw(t, "compound?") == 0 {
			p = gen.PacketOf(t, m.KCOMPOUND)
		} else {
			p = gen.PacketOf(t, gen.LeafKinds[(rot+i*4)%len(gen.LeafKinds)])
		}
		shrinkBig(p)
		templates = append(templates, p)
	}
	for g := 0; g < G; g++ {
		c.Own = append(c.Own, []m.Packet{templates[g%len(templates)], templates[(g+1)%len(templates)]})
		var ops []c18Target
		n := rapid.IntRange(opsPer/2, opsPer).Draw(t, "nops")
		seedOps := rapid.SliceOfN(rapid.IntRange(0, 1<<20), 8, 8).Draw(t, "opseed")
		for i := 0; i < n; i++ {
			x := seedOps[i%8]*31 + i*7919 + g*104729
			ops = append(ops, c18Target{Op: c18Ops[x%len(c18Ops)], Shared: x/8%3 != 0, Idx: x / 64 % 7})
		}
		c.Ops = append(c.Ops, ops)
	}
	return c
}

func TestC18(t *testing.T) {
	defer harness.Uncaught(t)
	// The driver runs this test twice: with the plain binary for (A) and with the -race binary for (B).
	if raceEnabled {
		testC18Schedules(t)
		return
	}
	// (A) histories
	harness.RapidCheck(t, harness.Scale(700, 6000), 18, func(rt *rapid.T) {
		var c c18History
		c.Packets, c.Decoded, c.Buffers = genC18Pool(rt, 3)
		c.Direct = genC18Direct(rt)
		n := rapid.IntRange(1, 60).Draw(rt, "nsteps")
		for i := 0; i < n; i++ {
			c.Steps = append(c.Steps, c18Step{Op: rapid.SampledFrom(c18Ops).Draw(rt, "op"), Idx: rapid.IntRange(0, 7).Draw(rt, "idx")})
		}
		ops := map[string]bool{}
		for _, s := range c.Steps {
			ops[s.Op] = true
		}
		nt := len(ops) >= 3 && len(c.Packets)+len(c.Decoded) >= 2
		harness.Eval(subC18A.Name, 1)
		harness.Class(fmt.Sprintf("history-steps:%s", lenBucket(len(c.Steps))), 1)
		if nt {
			h := harness.Hash(c)
			harness.NonTrivialHash(h)
			if len(c.Steps) <= 8 {
				harness.Sample(subC18A.Name, h, c)
			}
		}
		subC18A.Check(rt, c)
	})
	// (A2) repeated Unmarshal into one receiver
	harness.RapidCheck(t, harness.Scale(4000, 30000), 182, func(rt *rapid.T) {
		c := genC18Reuse(rt)
		harness.Record(subC18Reuse.Name, c, true, "reuse:"+string(c.Kind))
		subC18Reuse.Check(rt, c)
	})
	// ... and into one receiver of every exported sub-structure
	harness.RapidCheck(t, harness.Scale(3000, 20000), 183, func(rt *rapid.T) {
		c := genC18SubReuse(rt)
		harness.Record(subC18Reuse.Name, c, true, "reuse-sub:"+c.Sub)
		subC18Reuse.Check(rt, c)
	})
}

// c18ColdStart is the first script of every -race process: one packet of EVERY kind (and its
// encoding), every operation on each of them, by 8 goroutines, before anything in the package
// has been called in this process. Whatever the package initialises lazily per type or per
// operation is therefore first used by several goroutines that share no synchronisation.
func c18ColdStart(seed int) c18Script {
	kinds := append(append([]m.Kind(nil), gen.LeafKinds...), m.KCOMPOUND)
	c := c18Script{Procs: 16}
	for i, k := range kinds {
		k := k
		p := rapid.Custom(func(rt *rapid.T) m.Packet { return gen.PacketOf(rt, k) }).Example(seed*64 + i)
		shrinkBig(p)
		c.Shared = append(c.Shared, p)
		if e, err := m.Encode(c06Readable(p), &m.EncOpts{D: gen.PionDialect}); err == nil && len(e.B) <= 4096 {
			c.Buffers = append(c.Buffers, e.B)
		}
	}
	const G = 8
	for g := 0; g < G; g++ {
		c.Own = append(c.Own, c.Shared)
		var ops []c18Target
		for i := range kinds {
			idx := (i + g*3) % len(kinds)
			for _, op := range c18Ops {
				ops = append(ops, c18Target{Op: op, Shared: g%2 == 0, Idx: idx})
			}
		}
		c.Ops = append(c.Ops, ops)
	}
	return c
}

// (B) schedules: generated scripts under the race detector
func testC18Schedules(t *testing.T) {
	opsPer := harness.Scale(60, 300)
	cold := c18ColdStart(int(harness.SeedFor(1811) % 1000))
	writeCurrent(subC18B.Name, cold)
	harness.Eval(subC18B.Name, 1)
	harness.Class("script-cold-start-all-kinds", 1)
	harness.NonTrivialHash(harness.Hash(cold.Ops))
	subC18B.Check(t, cold)
	harness.RapidCheck(t, harness.Scale(8, 80), 181, func(rt *rapid.T) {
		c := genC18Script(rt, opsPer)
		writeCurrent(subC18B.Name, c)
		harness.Eval(subC18B.Name, 1)
		harness.Class(fmt.Sprintf("script-goroutines:%d", len(c.Ops)), 1)
		harness.NonTrivialHash(harness.Hash(c.Ops))
		if len(c.Ops) == 4 {
			harness.Sample(subC18B.Name, harness.Hash(c.Ops[0]), map[string]interface{}{"goroutines": len(c.Ops), "procs": c.Procs, "shared_kinds": kindsOf(c.Shared), "first_ops_of_goroutine_0": c.Ops[0][:min(6, len(c.Ops[0]))]})
		}
		subC18B.Check(rt, c)
	})
}
