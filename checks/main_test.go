package checks

import (
	"fmt"
	"os"
	"testing"

	"verif/harness"
)

func TestMain(m *testing.M) {
	harness.Init()
	code := m.Run()
	harness.Flush()
	os.Exit(code)
}

// TestWitnesses runs the stored witness of every open known finding of this property.
func TestWitnesses(t *testing.T) {
	if harness.Cfg.Mode != "witness" {
		t.Skip("witness mode only")
	}
	lines, problems := harness.RunWitnesses()
	for _, l := range lines {
		fmt.Println(l)
	}
	for _, p := range problems {
		t.Errorf("%s", p)
	}
}

// TestReplay re-executes a stored failing case through its oracle, without rapid.
func TestReplay(t *testing.T) {
	if harness.Cfg.Mode != "replay" {
		t.Skip("replay mode only")
	}
	ff, err, known := harness.Replay(harness.Cfg.Replay)
	fmt.Printf("replay prop=%s sub=%s\ncase: %s\nrecorded message: %s\n", ff.Prop, ff.Sub, string(ff.Case), ff.Message)
	if known != "" {
		fmt.Printf("KNOWN-FINDING: property=%s %s explains this case\n", ff.Prop, known)
		return
	}
	if err != nil {
		t.Fatalf("still fails: %v", err)
	}
	fmt.Println("passes on the current tree")
}
