package checks

import (
	"bytes"
	"fmt"
	"testing"

	"github.com/pion/rtcp"
	"pgregory.net/rapid"

	"verif/conv"
	"verif/gen"
	"verif/harness"
	m "verif/refmodel"
)

// C16: fixed-width wire units encode/decode bijectively over their whole domain.

type c16Case struct {
	Unit string
	V    uint64
}

func be16(v uint16) []byte { return []byte{byte(v >> 8), byte(v)} }
func be32(v uint32) []byte { return []byte{byte(v >> 24), byte(v >> 16), byte(v >> 8), byte(v)} }

// c16Check is the full oracle for one value of one unit.
func c16Check(unit string, v uint64) error {
	switch unit {
	case "header-fields": // v = P(1) | count(5) | type(8) | length(16), 30 bits
		h := rtcp.Header{Padding: v>>29&1 == 1, Count: uint8(v >> 24 & 0x1f), Type: rtcp.PacketType(v >> 16 & 0xff), Length: uint16(v)}
		b, err := h.Marshal()
		if err != nil {
			return fmt.Errorf("Header%+v.Marshal: %v", h, err)
		}
		want := []byte{0x80 | byte(v>>29&1)<<5 | byte(v>>24&0x1f), byte(v >> 16), byte(v >> 8), byte(v)}
		if !bytes.Equal(b, want) {
			return fmt.Errorf("Header%+v.Marshal() = %x, want %x", h, b, want)
		}
		var g rtcp.Header
		if err := g.Unmarshal(b); err != nil || g != h {
			return fmt.Errorf("Header round trip: %+v -> %x -> %+v (%v)", h, b, g, err)
		}
	case "header-count-over-31": // v = count 32..255 | type | length
		h := rtcp.Header{Count: uint8(v >> 24), Type: rtcp.PacketType(v >> 16 & 0xff), Length: uint16(v)}
		if b, err := h.Marshal(); err == nil {
			return fmt.Errorf("Header with count %d marshalled without error: %x", h.Count, b)
		}
	case "header-word": // v = raw 32-bit word
		w := be32(uint32(v))
		var h rtcp.Header
		err := h.Unmarshal(w)
		if w[0]>>6 != 2 {
			if err == nil {
				return fmt.Errorf("header word %x with version %d accepted", w, w[0]>>6)
			}
			return nil
		}
		if err != nil {
			return fmt.Errorf("header word %x rejected: %v", w, err)
		}
		if h.Padding != (w[0]&0x20 != 0) || h.Count != w[0]&0x1f || uint8(h.Type) != w[1] || h.Length != uint16(w[2])<<8|uint16(w[3]) {
			return fmt.Errorf("header word %x decoded to %+v", w, h)
		}
		b, err := h.Marshal()
		if err != nil || !bytes.Equal(b, w) {
			return fmt.Errorf("header word %x -> %+v -> %x (%v)", w, h, b, err)
		}
	case "header-short": // v = length 0..3
		var h rtcp.Header
		if err := h.Unmarshal([]byte{0x80, 200, 0, 0}[:v]); err == nil {
			return fmt.Errorf("%d-octet header accepted", v)
		}
	case "twcc-runlength-word": // v = 16-bit word with T=0
		w := be16(uint16(v))
		var c rtcp.RunLengthChunk
		if err := c.Unmarshal(w); err != nil {
			return fmt.Errorf("RunLengthChunk.Unmarshal(%x): %v", w, err)
		}
		if c.PacketStatusSymbol != uint16(v>>13&3) || c.RunLength != uint16(v&0x1FFF) || c.Type != rtcp.TypeTCCRunLengthChunk {
			return fmt.Errorf("RunLengthChunk.Unmarshal(%x) = %+v", w, c)
		}
		b, err := c.Marshal()
		if err != nil || !bytes.Equal(b, w) {
			return fmt.Errorf("run-length word %x -> %+v -> %x (%v)", w, c, b, err)
		}
		// value -> word -> value
		c2 := rtcp.RunLengthChunk{Type: rtcp.TypeTCCRunLengthChunk, PacketStatusSymbol: uint16(v >> 13 & 3), RunLength: uint16(v & 0x1FFF)}
		b2, err := c2.Marshal()
		var c3 rtcp.RunLengthChunk
		if err != nil || c3.Unmarshal(b2) != nil || c3.PacketStatusSymbol != c2.PacketStatusSymbol || c3.RunLength != c2.RunLength {
			return fmt.Errorf("RunLengthChunk value round trip %+v -> %x -> %+v (%v)", c2, b2, c3, err)
		}
	case "twcc-vector-word": // v = 16-bit word with T=1
		w := be16(uint16(v))
		var c rtcp.StatusVectorChunk
		if err := c.Unmarshal(w); err != nil {
			return fmt.Errorf("StatusVectorChunk.Unmarshal(%x): %v", w, err)
		}
		two := v>>14&1 == 1
		var want []uint16
		if two {
			for i := 0; i < 7; i++ {
				want = append(want, uint16(v>>uint(12-2*i)&3))
			}
		} else {
			for i := 0; i < 14; i++ {
				want = append(want, uint16(v>>uint(13-i)&1))
			}
		}
		if !eq16(c.SymbolList, want) || (c.SymbolSize == rtcp.TypeTCCSymbolSizeTwoBit) != two || c.Type != rtcp.TypeTCCStatusVectorChunk {
			return fmt.Errorf("StatusVectorChunk.Unmarshal(%x) = %+v, want symbols %v", w, c, want)
		}
		b, err := c.Marshal()
		if err != nil || !bytes.Equal(b, w) {
			return fmt.Errorf("status-vector word %x -> %+v -> %x (%v)", w, c, b, err)
		}
		// value -> word -> value
		sz := uint16(rtcp.TypeTCCSymbolSizeOneBit)
		if two {
			sz = rtcp.TypeTCCSymbolSizeTwoBit
		}
		c2 := rtcp.StatusVectorChunk{Type: rtcp.TypeTCCStatusVectorChunk, SymbolSize: sz, SymbolList: want}
		b2, err := c2.Marshal()
		var c3 rtcp.StatusVectorChunk
		if err != nil || c3.Unmarshal(b2) != nil || !eq16(c3.SymbolList, want) || c3.SymbolSize != sz {
			return fmt.Errorf("StatusVectorChunk value round trip %+v -> %x -> %+v (%v)", c2, b2, c3, err)
		}
	case "twcc-delta-1": // v = octet
		var d rtcp.RecvDelta
		if err := d.Unmarshal([]byte{byte(v)}); err != nil || d.Type != rtcp.TypeTCCPacketReceivedSmallDelta || d.Delta != 250*int64(v) {
			return fmt.Errorf("RecvDelta.Unmarshal(%02x) = %+v (%v), want small %d", v, d, err, 250*int64(v))
		}
		b, err := d.Marshal()
		if err != nil || len(b) != 1 || b[0] != byte(v) {
			return fmt.Errorf("RecvDelta %+v re-encodes to %x (%v)", d, b, err)
		}
	case "twcc-delta-2": // v = 16-bit two's complement
		w := be16(uint16(v))
		var d rtcp.RecvDelta
		want := 250 * int64(int16(uint16(v)))
		if err := d.Unmarshal(w); err != nil || d.Type != rtcp.TypeTCCPacketReceivedLargeDelta || d.Delta != want {
			return fmt.Errorf("RecvDelta.Unmarshal(%x) = %+v (%v), want large %d", w, d, err, want)
		}
		b, err := d.Marshal()
		if err != nil || !bytes.Equal(b, w) {
			return fmt.Errorf("RecvDelta %+v re-encodes to %x (%v), want %x", d, b, err, w)
		}
	case "total-lost": // v = 24-bit
		r := rtcp.ReceptionReport{SSRC: 0x01020304, FractionLost: 0xA5, TotalLost: uint32(v), LastSequenceNumber: 0x11223344, Jitter: 0x55667788, LastSenderReport: 0x99AABBCC, Delay: 0xDDEEFF00}
		b, err := r.Marshal()
		if err != nil {
			return fmt.Errorf("ReceptionReport{TotalLost: %d}.Marshal: %v", v, err)
		}
		want := []byte{1, 2, 3, 4, 0xA5, byte(v >> 16), byte(v >> 8), byte(v), 0x11, 0x22, 0x33, 0x44, 0x55, 0x66, 0x77, 0x88, 0x99, 0xAA, 0xBB, 0xCC, 0xDD, 0xEE, 0xFF, 0}
		if !bytes.Equal(b, want) {
			return fmt.Errorf("ReceptionReport{TotalLost: %d} = %x, want %x", v, b, want)
		}
		var g rtcp.ReceptionReport
		if err := g.Unmarshal(b); err != nil || g != r {
			return fmt.Errorf("ReceptionReport round trip %+v -> %+v (%v)", r, g, err)
		}
	case "ccfb-metric-word": // v = 16-bit metric block word, reached through a two-metric report
		// 205/11, one report block: ssrc, begin_seq 10, num_reports field 1 (pion reads field+1 = 2 metric blocks)
		wire := []byte{0x8B, 205, 0, 5, 0, 0, 0, 1, 0, 0, 0, 2, 0, 10, 0, 1, byte(v >> 8), byte(v), 0x80, 0x00, 0, 0, 0, 9}
		var r rtcp.CCFeedbackReport
		if err := r.Unmarshal(wire); err != nil || len(r.ReportBlocks) != 1 || len(r.ReportBlocks[0].MetricBlocks) != 2 {
			return fmt.Errorf("CCFB with metric word %04x: %v %+v", v, err, r)
		}
		mb := r.ReportBlocks[0].MetricBlocks[0]
		want := rtcp.CCFeedbackMetricBlock{}
		if v&0x8000 != 0 {
			want = rtcp.CCFeedbackMetricBlock{Received: true, ECN: rtcp.ECN(v >> 13 & 3), ArrivalTimeOffset: uint16(v & 0x1FFF)}
		}
		if mb != want {
			return fmt.Errorf("metric block word %04x decodes to %+v, want %+v", v, mb, want)
		}
		out, err := r.Marshal()
		if err != nil {
			return fmt.Errorf("CCFB re-marshal: %v", err)
		}
		canon := uint16(v)
		if v&0x8000 == 0 {
			canon = 0
		}
		if len(out) != len(wire) || out[16] != byte(canon>>8) || out[17] != byte(canon) {
			return fmt.Errorf("metric block word %04x re-encodes to %02x%02x, want %04x", v, out[16], out[17], canon)
		}
	case "xr-chunk": // v = 16-bit XR RLE chunk
		c := rtcp.Chunk(v)
		var wt rtcp.ChunkType
		var wv uint
		switch {
		case v == 0:
			wt, wv = rtcp.TerminatingNullChunkType, 0
		case v&0x8000 == 0:
			wt, wv = rtcp.RunLengthChunkType, uint(v&0x3FFF)
		default:
			wt, wv = rtcp.BitVectorChunkType, uint(v&0x7FFF)
		}
		if c.Type() != wt || c.Value() != wv {
			return fmt.Errorf("Chunk(%#04x): Type %d Value %d, want %d %d", v, c.Type(), c.Value(), wt, wv)
		}
		rt, err := c.RunType()
		if wt == rtcp.RunLengthChunkType {
			if err != nil || rt != uint(v>>14&1) {
				return fmt.Errorf("Chunk(%#04x).RunType() = %d, %v", v, rt, err)
			}
		} else if err == nil {
			return fmt.Errorf("Chunk(%#04x).RunType() on a non run-length chunk returned no error", v)
		}
		if s := c.String(); s == "" {
			return fmt.Errorf("Chunk(%#04x).String() empty", v)
		}
	case "nack-pair": // v = PID(16) | BLP(16)
		p := rtcp.TransportLayerNack{SenderSSRC: 0x01020304, MediaSSRC: 0x05060708, Nacks: []rtcp.NackPair{{PacketID: uint16(v >> 16), LostPackets: rtcp.PacketBitmap(v)}}}
		b, err := p.Marshal()
		want := []byte{0x81, 205, 0, 3, 1, 2, 3, 4, 5, 6, 7, 8, byte(v >> 24), byte(v >> 16), byte(v >> 8), byte(v)}
		if err != nil || !bytes.Equal(b, want) {
			return fmt.Errorf("NACK pair %08x marshals to %x (%v), want %x", v, b, err, want)
		}
		var g rtcp.TransportLayerNack
		if err := g.Unmarshal(b); err != nil || len(g.Nacks) != 1 || g.Nacks[0] != p.Nacks[0] || g.SenderSSRC != p.SenderSSRC || g.MediaSSRC != p.MediaSSRC {
			return fmt.Errorf("NACK pair %08x does not round trip: %+v (%v)", v, g, err)
		}
	case "sli-entry": // v = 32-bit SLI word: first(13) number(13) picture(6)
		e := rtcp.SLIEntry{First: uint16(v >> 19 & 0x1FFF), Number: uint16(v >> 6 & 0x1FFF), Picture: uint8(v & 0x3F)}
		p := rtcp.SliceLossIndication{SenderSSRC: 0x01020304, MediaSSRC: 0x05060708, SLI: []rtcp.SLIEntry{e}}
		b, err := p.Marshal()
		if err != nil || len(b) != 16 || !bytes.Equal(b[12:], be32(uint32(v))) || !bytes.Equal(b[4:12], []byte{1, 2, 3, 4, 5, 6, 7, 8}) {
			return fmt.Errorf("SLI entry %+v marshals to %x (%v), want entry word %08x", e, b, err, v)
		}
		var g rtcp.SliceLossIndication
		if err := g.Unmarshal(b); err != nil || len(g.SLI) != 1 || g.SLI[0] != e {
			return fmt.Errorf("SLI entry %+v does not round trip: %+v (%v)", e, g, err)
		}
	case "fir-entry": // v = SSRC(32) | seq(8), 40 bits
		e := rtcp.FIREntry{SSRC: uint32(v >> 8), SequenceNumber: uint8(v)}
		p := rtcp.FullIntraRequest{SenderSSRC: 0x01020304, MediaSSRC: 0x05060708, FIR: []rtcp.FIREntry{e}}
		b, err := p.Marshal()
		want := append(append([]byte{0x84, 206, 0, 4, 1, 2, 3, 4, 5, 6, 7, 8}, be32(e.SSRC)...), e.SequenceNumber, 0, 0, 0)
		if err != nil || !bytes.Equal(b, want) {
			return fmt.Errorf("FIR entry %+v marshals to %x (%v), want %x", e, b, err, want)
		}
		// reserved bits are ignored on read
		b[17], b[18], b[19] = byte(v>>3), byte(v>>11), byte(v>>17)
		var g rtcp.FullIntraRequest
		if err := g.Unmarshal(b); err != nil || len(g.FIR) != 1 || g.FIR[0] != e {
			return fmt.Errorf("FIR entry %+v does not round trip: %+v (%v)", e, g, err)
		}
	default:
		return fmt.Errorf("unknown unit %q", unit)
	}
	return nil
}

var subC16 = harness.NewSub("c16-unit-bijective", func(c c16Case, _ harness.Dialect) error {
	return c16Check(c.Unit, c.V)
})

// c16Range runs a unit over [lo,hi) of an index space mapped through f.
func c16Range(t *testing.T, unit string, lo, hi uint64, f func(i uint64) uint64) int64 {
	var n int64
	for i := lo; i < hi; i++ {
		v := f(i)
		if err := c16Check(unit, v); err != nil {
			subC16.Check(t, c16Case{Unit: unit, V: v})
			t.Fatalf("inconsistent oracle for %s %d: %v", unit, v, err)
		}
		n++
	}
	harness.Eval(subC16.Name+"/"+unit, n)
	harness.NonTrivialDistinct(n)
	return n
}

// c16Version: "headers with a version other than 2 or fewer than 4 octets are rejected" holds for
// the common header wherever it is parsed - by Header.Unmarshal (unit "header-word" below), by the
// datagram decoder, and by every packet type's own decoder, some of which parse the first octet
// themselves. Frame is a valid encoding of Kind; the case sets the two version bits to Version,
// or cuts the frame to Cut (0..3) octets.
type c16Version struct {
	Kind    m.Kind
	Frame   m.Bytes
	Version uint8
	Cut     int // -1: full frame
}

var subC16Version = harness.NewSub("c16-bad-version-rejected-by-every-decoder", func(c c16Version, _ harness.Dialect) error {
	b := append([]byte(nil), c.Frame...)
	what := fmt.Sprintf("version %d", c.Version)
	if c.Cut >= 0 {
		b = b[:c.Cut]
		what = fmt.Sprintf("only %d octets", c.Cut)
	} else {
		b[0] = b[0]&0x3F | c.Version<<6
	}
	if c.Cut < 0 && c.Version == 2 {
		// the control: the unmodified frame is accepted by the same decoder
		if err := conv.New(c.Kind).Unmarshal(exactCopy(b)); err != nil {
			return fmt.Errorf("%s: its own decoder rejects the valid frame %s: %v", conv.GoType(c.Kind), hexs(b), err)
		}
		return nil
	}
	var derr error
	if perr := harness.Guard(func() error { derr = conv.New(c.Kind).Unmarshal(exactCopy(b)); return nil }); perr != nil {
		return fmt.Errorf("%s.Unmarshal of a frame with %s panicked: %v", conv.GoType(c.Kind), what, perr)
	}
	if derr == nil {
		return fmt.Errorf("%s.Unmarshal accepted a frame with %s: %s", conv.GoType(c.Kind), what, hexs(b))
	}
	if ps, err := safeUnmarshal(exactCopy(b)); err == nil {
		return fmt.Errorf("rtcp.Unmarshal accepted a %s frame with %s (%d packets): %s", c.Kind, what, len(ps), hexs(b))
	}
	return nil
})

func testC16Versions(t *testing.T) {
	kinds := append(append([]m.Kind(nil), m.TypedKinds...), m.KRAW)
	n := harness.Scale(40, 400)
	lo, hi := harness.ShardRange(int64(len(kinds) * n))
	for i := lo; i < hi; i++ {
		k := kinds[int(i)/n]
		g := rapid.Custom(func(rt *rapid.T) []byte {
			p := gen.PacketOf(rt, k)
			shrinkBig(p)
			e, err := m.Encode(c06Readable(p), &m.EncOpts{D: gen.PionDialect})
			if err != nil {
				panic(err)
			}
			return e.B
		})
		frame := g.Example(int(harness.SeedFor(1616)%100000) + int(i))
		if len(frame) > 4096 {
			continue
		}
		for _, v := range []uint8{2, 0, 1, 3} {
			c := c16Version{Kind: k, Frame: frame, Version: v, Cut: -1}
			subC16Version.Check(t, c)
			harness.Eval(subC16Version.Name, 1)
			harness.NonTrivialHash(harness.Hash(c))
		}
		for cut := 0; cut <= 3; cut++ {
			c := c16Version{Kind: k, Frame: frame, Version: 2, Cut: cut}
			subC16Version.Check(t, c)
			harness.Eval(subC16Version.Name, 1)
			harness.NonTrivialHash(harness.Hash(c))
		}
		harness.Class("version-frame:"+string(k), 1)
	}
	harness.Sample(subC16Version.Name, 1, c16Version{Kind: m.KREMB, Frame: []byte{0x8f, 0xce, 0, 4, 0, 0, 0, 1, 0, 0, 0, 0, 'R', 'E', 'M', 'B', 0, 0, 0, 1}, Version: 0, Cut: -1})
}

func TestC16(t *testing.T) {
	defer harness.Uncaught(t)
	testC16Versions(t)
	id := func(i uint64) uint64 { return i }
	shard := func(n uint64) (uint64, uint64) {
		lo, hi := harness.ShardRange(int64(n))
		return uint64(lo), uint64(hi)
	}
	full := func(unit string, bits uint, space string) {
		lo, hi := shard(1 << bits)
		c16Range(t, unit, lo, hi, id)
		harness.Exhaustive(subC16.Name+"/"+unit, space)
	}
	// strided: i -> i*mult mod 2^bits with an odd multiplier is a bijection on the full domain,
	// so the first n indices are n distinct values in which every bit position varies
	strided := func(unit string, bits uint, n uint64, mult uint64) {
		lo, hi := shard(n)
		mask := uint64(1)<<bits - 1
		c16Range(t, unit, lo, hi, func(i uint64) uint64 { return i * mult & mask })
	}
	boundaries := func(unit string, bits uint) {
		if harness.Cfg.Shard != 0 {
			return
		}
		mask := uint64(1)<<bits - 1
		var vs []uint64
		for k := uint(0); k < bits; k++ {
			vs = append(vs, 1<<k, mask^(1<<k), 1<<k-1, mask&^(1<<k-1))
		}
		vs = append(vs, 0, mask, 0x5555555555555555&mask, 0xAAAAAAAAAAAAAAAA&mask)
		c16Range(t, unit, 0, uint64(len(vs)), func(i uint64) uint64 { return vs[i] & mask })
	}

	full("twcc-runlength-word", 15, "all 2^15 run-length chunk words (T=0), both directions")
	{
		lo, hi := shard(1 << 15)
		c16Range(t, "twcc-vector-word", lo, hi, func(i uint64) uint64 { return 0x8000 | i })
		harness.Exhaustive(subC16.Name+"/twcc-vector-word", "all 2^15 status-vector chunk words (T=1), both directions")
	}
	full("twcc-delta-1", 8, "all 2^8 one-octet deltas")
	full("twcc-delta-2", 16, "all 2^16 two-octet deltas")
	full("total-lost", 24, "all 2^24 cumulative-lost values")
	full("ccfb-metric-word", 16, "all 2^16 metric block words")
	full("xr-chunk", 16, "all 2^16 XR RLE chunks")
	if harness.Cfg.Shard == 0 {
		c16Range(t, "header-short", 0, 4, id)
	}
	{
		// count 32..255 cannot be encoded
		lo, hi := shard(224 * 64)
		c16Range(t, "header-count-over-31", lo, hi, func(i uint64) uint64 { return (32+i/64)<<24 | (i%64*0x040101+200<<16)&0xFFFFFF })
	}
	if harness.Thorough() {
		full("header-fields", 30, "all 2^30 header field combinations")
		full("header-word", 32, "all 2^32 raw header words")
		full("nack-pair", 32, "all 2^32 (PacketID, bitmap) pairs")
		full("sli-entry", 32, "all 2^32 SLI entry words")
		strided("fir-entry", 40, 1<<28, 0x9E3779B97F)
	} else {
		// all 2*32*256 (P, count, type) x 512 strided lengths
		lo, hi := shard(1 << 23)
		c16Range(t, "header-fields", lo, hi, func(i uint64) uint64 { return i>>9<<16 | (i&511)*127&0xFFFF | (i&1)*0x8000 })
		strided("header-word", 32, 1<<22, 0x9E3779B1)
		strided("nack-pair", 32, 1<<21, 0x9E3779B1)
		strided("sli-entry", 32, 1<<21, 0x9E3779B1)
		strided("fir-entry", 40, 1<<20, 0x9E3779B97F)
	}
	boundaries("header-fields", 30)
	boundaries("header-word", 32)
	boundaries("nack-pair", 32)
	boundaries("sli-entry", 32)
	boundaries("fir-entry", 40)
	harness.Sample(subC16.Name, 1, c16Case{Unit: "sli-entry", V: 0xFFF80001})
	harness.Sample(subC16.Name, 2, c16Case{Unit: "header-word", V: 0xBFCDFFFF})
	harness.Sample(subC16.Name, 3, c16Case{Unit: "ccfb-metric-word", V: 0xE001})
	harness.Sample(subC16.Name, 4, c16Case{Unit: "total-lost", V: 0xFFFFFF})
}
