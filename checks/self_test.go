package checks

import (
	"bytes"
	"reflect"
	"testing"

	"pgregory.net/rapid"

	"verif/conv"
	"verif/gen"
	"verif/harness"
	m "verif/refmodel"
)

// Self-tests of the reference model. A failure here is a defect of the machinery
// (exit 2, never a VIOLATION).

func TestSelfRefRoundTrip(t *testing.T) {
	harness.RapidCheck(t, 4000, 900, func(rt *rapid.T) {
		p := gen.Packet(rt)
		e, err := m.Encode(p, nil)
		if err != nil {
			rt.Fatalf("Encode(%s): %v", conv.JSON(p), err)
		}
		if len(e.B)%4 != 0 || len(e.B) != len(e.DontCare) {
			rt.Fatalf("bad encoding size %d/%d", len(e.B), len(e.DontCare))
		}
		frames, err := m.SplitFrames(e.B)
		if err != nil || len(frames) != 1 {
			rt.Fatalf("SplitFrames: %v %d", err, len(frames))
		}
		q, err := m.DecodeFrame(e.B, p.Kind, m.Strict)
		if err != nil {
			rt.Fatalf("DecodeFrame(%x) of %s: %v", e.B, conv.JSON(p), err)
		}
		want := expectAfterRoundTrip(p)
		if !conv.Equal(want, q) {
			rt.Fatalf("reference round trip differs:\n%s", conv.Diff(want, q))
		}
		// the datagram decoder agrees with the per-kind decoder
		ps, err := m.DecodeDatagram(e.B, m.Strict)
		if err != nil || len(ps) != 1 || !conv.Equal(ps[0], q) {
			rt.Fatalf("DecodeDatagram disagrees: %v", err)
		}
		// conv is its own inverse on model values
		back, err := conv.FromPion(conv.ToPion(p))
		if err != nil || !conv.Equal(back, p) {
			rt.Fatalf("conv round trip: %v\n%s", err, conv.Diff(p, back))
		}
	})
}

func TestSelfAnchors(t *testing.T) {
	// draft-holmer-rmcat-transport-wide-cc-extensions-01 section 3.1.3 / 3.1.4 examples
	for _, c := range []struct {
		w    uint16
		want m.TWCCChunk
	}{
		{0x00DD, m.TWCCChunk{Symbol: 0, Run: 221}},
		{0x6018, m.TWCCChunk{Symbol: 3, Run: 24}},
		{0x9F1C, m.TWCCChunk{Vector: true, Symbols: []uint16{0, 1, 1, 1, 1, 1, 0, 0, 0, 1, 1, 1, 0, 0}}},
		{0xCD50, m.TWCCChunk{Vector: true, TwoBit: true, Symbols: []uint16{0, 3, 1, 1, 1, 0, 0}}},
	} {
		got := m.UnpackChunk(c.w)
		if !reflect.DeepEqual(got, c.want) {
			t.Fatalf("UnpackChunk(%#04x) = %+v want %+v", c.w, got, c.want)
		}
		w, err := m.ChunkWord(c.want)
		if err != nil || w != c.w {
			t.Fatalf("ChunkWord(%+v) = %#04x, %v want %#04x", c.want, w, err, c.w)
		}
	}
	// REMB captured from Chrome: mantissa 139487, exp 6 => 8927168 b/s, one SSRC
	remb := []byte{143, 206, 0, 5, 0, 0, 0, 1, 0, 0, 0, 0, 82, 69, 77, 66, 1, 26, 32, 223, 72, 116, 237, 22}
	p, err := m.DecodeFrame(remb, m.KREMB, m.Strict)
	if err != nil || p.REMB.Bitrate != 8927168 || p.REMB.Sender != 1 || len(p.REMB.SSRCs) != 1 || p.REMB.SSRCs[0] != 1215622422 {
		t.Fatalf("REMB anchor: %v %+v", err, p.REMB)
	}
	e, err := m.Encode(p, nil)
	if err != nil || !bytes.Equal(e.B, remb) {
		t.Fatalf("REMB anchor re-encode: %v %x", err, e.B)
	}
	// TWCC example captured from libwebrtc (pion test "example1"): P=1, one small delta
	twcc := []byte{0xaf, 0xcd, 0x0, 0x5, 0xfa, 0x17, 0xfa, 0x17, 0x43, 0x3, 0x2f, 0xa0, 0x0, 0x99, 0x0, 0x1, 0x3d, 0xe8, 0x2, 0x17, 0x20, 0x1, 0x94, 0x1}
	tp, err := m.DecodeFrame(twcc, m.KTWCC, m.Strict)
	if err != nil {
		t.Fatalf("TWCC anchor: %v", err)
	}
	w := tp.TWCC
	if w.Sender != 0xfa17fa17 || w.Media != 0x43032fa0 || w.BaseSeq != 153 || w.StatusCount != 1 || w.RefTime != 0x3de802 || w.FbCount != 23 ||
		len(w.Chunks) != 1 || w.Chunks[0].Symbol != 1 || w.Chunks[0].Run != 1 || len(w.Deltas) != 1 || w.Deltas[0].Micros != 37000 || !w.Padding {
		t.Fatalf("TWCC anchor fields: %s", conv.JSON(w))
	}
	e, err = m.Encode(tp, nil)
	if err != nil || !bytes.Equal(e.B, twcc) {
		t.Fatalf("TWCC anchor re-encode: %v %x", err, e.B)
	}
	// the six-packet datagram captured by pion's TestUnmarshal (RR, SDES, BYE, PLI, RRR, ...)
	dg := []byte{
		0x81, 0xc9, 0x0, 0x7, 0x90, 0x2f, 0x9e, 0x2e, 0xbc, 0x5e, 0x9a, 0x40, 0x0, 0x0, 0x0, 0x0, 0x0, 0x0, 0x46, 0xe1, 0x0, 0x0, 0x1, 0x11, 0x9, 0xf3, 0x64, 0x32, 0x0, 0x2, 0x4a, 0x79,
		0x81, 0xca, 0x0, 0xc, 0x90, 0x2f, 0x9e, 0x2e, 0x1, 0x26, 0x7b, 0x39, 0x63, 0x30, 0x30, 0x65, 0x62, 0x39, 0x32, 0x2d, 0x31, 0x61, 0x66, 0x62, 0x2d, 0x39, 0x64, 0x34, 0x39, 0x2d,
		0x61, 0x34, 0x37, 0x64, 0x2d, 0x39, 0x31, 0x66, 0x36, 0x34, 0x65, 0x65, 0x65, 0x36, 0x39, 0x66, 0x35, 0x7d, 0x0, 0x0, 0x0, 0x0,
		0x81, 0xcb, 0x0, 0x1, 0x90, 0x2f, 0x9e, 0x2e,
		0x81, 0xce, 0x0, 0x2, 0x90, 0x2f, 0x9e, 0x2e, 0x90, 0x2f, 0x9e, 0x2e,
		0x85, 0xcd, 0x0, 0x2, 0x90, 0x2f, 0x9e, 0x2e, 0x90, 0x2f, 0x9e, 0x2e,
	}
	ps, err := m.DecodeDatagram(dg, m.Strict)
	if err != nil || len(ps) != 5 {
		t.Fatalf("datagram anchor: %v %d", err, len(ps))
	}
	if ps[0].Kind != m.KRR || ps[0].RR.SSRC != 0x902f9e2e || len(ps[0].RR.Reports) != 1 || ps[0].RR.Reports[0].SSRC != 0xbc5e9a40 ||
		ps[0].RR.Reports[0].LastSeq != 0x46e1 || ps[0].RR.Reports[0].Jitter != 273 || ps[0].RR.Reports[0].LSR != 0x9f36432 || ps[0].RR.Reports[0].DLSR != 150137 {
		t.Fatalf("RR anchor: %s", conv.JSON(ps[0]))
	}
	if ps[1].Kind != m.KSDES || string(ps[1].SDES.Chunks[0].Items[0].Text) != "{9c00eb92-1afb-9d49-a47d-91f64eee69f5}" || ps[1].SDES.Chunks[0].Items[0].Type != 1 {
		t.Fatalf("SDES anchor: %s", conv.JSON(ps[1]))
	}
	if ps[2].Kind != m.KBYE || ps[3].Kind != m.KPLI || ps[4].Kind != m.KRRR || ps[4].RRR.Media != 0x902f9e2e {
		t.Fatalf("kinds: %v %v %v", ps[2].Kind, ps[3].Kind, ps[4].Kind)
	}
	e, err = m.EncodeList(ps, nil)
	if err != nil || !bytes.Equal(e.B, dg) {
		t.Fatalf("datagram anchor re-encode differs: %v", err)
	}
	// REMB arithmetic anchors
	for _, c := range []struct {
		x         float32
		exp, mant uint32
	}{{0, 0, 0}, {1, 0, 1}, {262143, 0, 262143}, {262144, 1, 131072}, {262145, 1, 131072}, {8927168, 6, 139487}, {8927167, 6, 139486}} {
		e, mt, err := m.REMBEncode(c.x)
		if err != nil || e != c.exp || mt != c.mant {
			t.Fatalf("REMBEncode(%v) = %d,%d,%v want %d,%d", c.x, e, mt, err, c.exp, c.mant)
		}
	}
}

// expectAfterRoundTrip applies the documented normalisations of an encode/decode round trip.
func expectAfterRoundTrip(p m.Packet) m.Packet {
	switch p.Kind {
	case m.KRR:
		v := *p.RR
		ext := append([]byte(nil), v.Ext...)
		for len(ext)%4 != 0 {
			ext = append(ext, 0)
		}
		v.Ext = ext
		return m.Packet{Kind: m.KRR, RR: &v}
	case m.KREMB:
		v := *p.REMB
		e, mt, _ := m.REMBEncode(v.Bitrate)
		v.Bitrate = m.REMBValue(e, mt, m.Strict)
		return m.Packet{Kind: m.KREMB, REMB: &v}
	}
	return p
}
