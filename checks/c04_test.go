package checks

import (
	"bytes"
	"fmt"
	"testing"

	"github.com/pion/rtcp"
	"pgregory.net/rapid"

	"verif/conv"
	"verif/gen"
	"verif/harness"
	m "verif/refmodel"
)

// C04: Unmarshal extracts the RFC-specified fields from any valid encoding, including forms
// this library's own encoder never produces; count-inflated SR/RR/SDES/BYE are rejected.

type c04Case struct {
	P       m.Packet
	Variant string
	// parameters from which the reference encoder rebuilds the variant encoding (so that the
	// case can be re-judged under a known finding's dialect and replayed without rapid)
	Rsvd           []uint32   `json:",omitempty"` // values of reserved / must-be-ignored bit fields, cyclic
	PadFill        byte       `json:",omitempty"`
	APPPadWords    int        `json:",omitempty"`
	REMBRaw        *[2]uint32 `json:",omitempty"`
	BYEEmptyReason bool       `json:",omitempty"`
	Inflate        int        `json:",omitempty"` // header count raised by this much (must be rejected)
	// PadWords > 0: RFC 3550 padding on any packet type - P bit set, PadWords words appended
	// (included in the length field), the last octet holds the number of padding octets.
	PadWords int `json:",omitempty"`
}

func (c c04Case) encode(d m.Dialect) ([]byte, error) {
	i := 0
	o := &m.EncOpts{D: d, APPPadWords: c.APPPadWords, REMBRaw: c.REMBRaw, BYEEmptyReason: c.BYEEmptyReason}
	if len(c.Rsvd) > 0 {
		o.Rsvd = func(n int) uint32 {
			v := c.Rsvd[i%len(c.Rsvd)]
			i++
			return v
		}
	}
	if c.PadFill != 0 {
		o.PadFill = func() byte { return c.PadFill }
	}
	e, err := m.Encode(c.P, o)
	if err != nil {
		return nil, err
	}
	if c.Inflate > 0 {
		e.B[0] = e.B[0]&0xE0 | (e.B[0]&0x1f+byte(c.Inflate))&0x1f
	}
	if c.PadWords > 0 && e.B[0]&0x20 == 0 {
		b := e.B
		for i := 0; i < 4*c.PadWords; i++ {
			b = append(b, c.PadFill)
		}
		b[len(b)-1] = byte(4 * c.PadWords)
		b[0] |= 0x20
		w := len(b)/4 - 1
		if w > 0xFFFF {
			return nil, m.ErrTooLarge
		}
		b[2], b[3] = byte(w>>8), byte(w)
		return b, nil
	}
	return e.B, nil
}

// inflationMustReject: the packet really cannot hold the claimed number of elements.
func inflationMustReject(p m.Packet, b []byte, k int) bool {
	count := int(b[0] & 0x1f) // already inflated
	if count < k {
		return false // wrapped past 31
	}
	switch p.Kind {
	case m.KSR:
		return 4+24+24*count > len(b)
	case m.KRR:
		return 4+4+24*count > len(b)
	case m.KBYE:
		return 4+4*count > len(b)
	case m.KSDES:
		return true
	}
	return false
}

// expectC04 is the value the decoder must return for an encoding of p.
func expectC04(p m.Packet, c c04Case, d m.Dialect) m.Packet {
	switch p.Kind {
	case m.KRR:
		return expectAfterRoundTrip(p)
	case m.KSR:
		v := *p.SR
		for len(v.Ext)%4 != 0 {
			v.Ext = append(append([]byte(nil), v.Ext...), 0)
		}
		return m.Packet{Kind: m.KSR, SR: &v}
	case m.KREMB:
		v := *p.REMB
		if c.REMBRaw != nil {
			v.Bitrate = m.REMBValue(c.REMBRaw[0], c.REMBRaw[1], d)
		} else {
			e, mt, _ := m.REMBEncode(v.Bitrate)
			v.Bitrate = m.REMBValue(e, mt, d)
		}
		return m.Packet{Kind: m.KREMB, REMB: &v}
	}
	return p
}

var subC04 = harness.NewSub("c04-decode-of-valid-encodings", func(c c04Case, hd harness.Dialect) error {
	d := hd.Ref()
	if hd.Has("ccfb-one-metric-block") && ccfbHasOneMetricBlock(c.P) {
		return nil
	}
	if c.PadWords > 0 && hd.Has("padding-not-honoured:"+string(c.P.Kind)) {
		return nil // listed per packet type: the decoder does not honour RFC 3550 padding
	}
	enc, err := c.encode(d)
	if err != nil {
		return fmt.Errorf("GENERATOR BUG: reference cannot encode the variant: %v", err)
	}
	if c.Inflate > 0 {
		if !inflationMustReject(c.P, enc, c.Inflate) {
			return nil
		}
		if err := conv.New(c.P.Kind).Unmarshal(append([]byte(nil), enc...)); err == nil {
			return fmt.Errorf("%s whose header count claims %d more element(s) than the packet holds was accepted by its own decoder\nbytes: %s", c.P.Kind, c.Inflate, hexs(enc))
		}
		if ps, err := rtcp.Unmarshal(append([]byte(nil), enc...)); err == nil {
			return fmt.Errorf("%s whose header count claims %d more element(s) than the packet holds was accepted by rtcp.Unmarshal (%d packets)\nbytes: %s", c.P.Kind, c.Inflate, len(ps), hexs(enc))
		}
		return nil
	}
	want := expectC04(c.P, c, d)
	if c.PadWords > 0 && c.P.Kind == m.KTWCC && len(enc) >= 4 && enc[0]&0x20 != 0 && !c.P.TWCC.Padding {
		v := *c.P.TWCC // the decoded (caller-visible) header is the one on the wire
		v.Padding, v.HdrLength = true, uint16(len(enc)/4-1)
		want = m.Packet{Kind: m.KTWCC, TWCC: &v}
	}
	wrapRejected := hd.Has("ccfb-rejects-seq-wrap") && ccfbSpansWrap(c.P)
	// the type's own decoder
	got, derr := decodeDirect(c.P.Kind, enc)
	switch {
	case wrapRejected:
		if derr == nil {
			return fmt.Errorf("dialect ccfb-rejects-seq-wrap expected a decode error")
		}
	case derr != nil:
		return fmt.Errorf("%s (%s): own decoder rejects an RFC-valid encoding: %v\nbytes: %s\nvalue: %s", c.P.Kind, c.Variant, derr, hexs(enc), conv.JSON(c.P))
	case !conv.Equal(want, got):
		return fmt.Errorf("%s (%s): own decoder extracts different fields from an RFC-valid encoding\n%s\nbytes: %s", c.P.Kind, c.Variant, conv.Diff(want, got), hexs(enc))
	}
	// the datagram decoder
	ps, uerr := decodeDatagram(enc)
	switch {
	case wrapRejected:
		if uerr == nil {
			return fmt.Errorf("dialect ccfb-rejects-seq-wrap expected a datagram decode error")
		}
	case uerr != nil:
		return fmt.Errorf("%s (%s): rtcp.Unmarshal rejects an RFC-valid encoding: %v\nbytes: %s\nvalue: %s", c.P.Kind, c.Variant, uerr, hexs(enc), conv.JSON(c.P))
	case len(ps) != 1:
		return fmt.Errorf("%s (%s): rtcp.Unmarshal returned %d packets for one frame", c.P.Kind, c.Variant, len(ps))
	case hd.Has("sli-pt-205") && c.P.Kind == m.KSLI:
		if raw, ok := ps[0].(*rtcp.RawPacket); !ok || !bytes.Equal([]byte(*raw), enc) {
			return fmt.Errorf("dialect sli-pt-205 expected the frame back as *RawPacket, got %s", typeName(ps[0]))
		}
	default:
		if tn := typeName(ps[0]); tn != conv.GoType(c.P.Kind) {
			return fmt.Errorf("%s (%s): rtcp.Unmarshal returned %s", c.P.Kind, c.Variant, tn)
		}
		g2, cerr := conv.FromPion(ps[0])
		if cerr != nil {
			return cerr
		}
		if !conv.Equal(want, g2) {
			return fmt.Errorf("%s (%s): rtcp.Unmarshal extracts different fields from an RFC-valid encoding\n%s\nbytes: %s", c.P.Kind, c.Variant, conv.Diff(want, g2), hexs(enc))
		}
	}
	return nil
})

// genC04Case draws a model value and one of the variant encodings the property enumerates.
func genC04Case(t *rapid.T, big bool) c04Case {
	rs := func(n int) []uint32 {
		out := make([]uint32, n)
		for i := range out {
			out[i] = gen.U32(t, "rsvd")
		}
		return out
	}
	hi := 13
	if big {
		hi = 14
	}
	switch rapid.IntRange(0, hi).Draw(t, "variant") {
	case 12, 13:
		// RFC 3550 section 6.4.1 padding, which any RTCP packet may carry
		p := gen.Packet(t)
		for p.Kind == m.KRAW || p.Kind == m.KAPP {
			p = gen.Packet(t)
		}
		if p.Kind == m.KTWCC {
			gen.FixTWCCHeader(p.TWCC, false)
		}
		return c04Case{P: p, Variant: "rfc3550-padding", PadWords: rapid.IntRange(1, 3).Draw(t, "padwords"), PadFill: rapid.SampledFrom([]byte{0, 0, 0xFF, 0x55}).Draw(t, "padfill")}
	case 0:
		// alternative TWCC chunkings of a status sequence, reserved symbol 3 included
		s := gen.Statuses(t, 300)
		ck := gen.Chunking(t, s.Statuses, true)
		v := gen.BuildTWCC(t, s, ck)
		if rapid.Bool().Draw(t, "sym3") && len(v.Chunks) > 0 {
			// turn "not received" into the reserved symbol 3 where the chunk form allows it (no delta either way)
			for i := range v.Chunks {
				c := &v.Chunks[i]
				if !c.Vector && c.Symbol == 0 && rapid.Bool().Draw(t, "sym3.run") {
					c.Symbol = 3
				}
				if c.Vector && c.TwoBit {
					for j := range c.Symbols {
						if c.Symbols[j] == 0 && j < int(v.StatusCount) && rapid.IntRange(0, 3).Draw(t, "sym3.vec") == 0 {
							c.Symbols[j] = 3
						}
					}
				}
			}
		}
		return c04Case{P: m.Packet{Kind: m.KTWCC, TWCC: v}, Variant: "twcc-chunking"}
	case 1:
		// unnormalised REMB pair for the same value
		p := gen.PacketOf(t, m.KREMB)
		exp, mant, _ := m.REMBEncode(p.REMB.Bitrate)
		switch rapid.IntRange(0, 2).Draw(t, "remb.dir") {
		case 0: // smaller exponent, larger mantissa
			for k := rapid.IntRange(0, 17).Draw(t, "k"); k > 0 && exp > 0 && mant<<1 < 1<<18; k-- {
				exp--
				mant <<= 1
			}
		case 1: // larger exponent, mantissa with trailing zeros removed
			for k := rapid.IntRange(0, 17).Draw(t, "k"); k > 0 && exp < 63 && mant&1 == 0 && mant != 0; k-- {
				exp++
				mant >>= 1
			}
		default: // an arbitrary pair
			exp, mant = uint32(gen.Bits(t, 6, "exp")), uint32(gen.Bits(t, 18, "mant"))
		}
		return c04Case{P: p, Variant: "remb-unnormalised", REMBRaw: &[2]uint32{exp, mant}}
	case 2:
		p := gen.PacketOf(t, m.KAPP)
		if len(p.APP.Data) > 60000 {
			p.APP.Data = p.APP.Data[:1000]
		}
		return c04Case{P: p, Variant: "app-padded", APPPadWords: rapid.IntRange(0, 3).Draw(t, "padwords"), PadFill: gen.U8(t, "padfill")}
	case 3:
		return c04Case{P: gen.PacketOf(t, m.KFIR), Variant: "fir-reserved-bits", Rsvd: rs(4)}
	case 4:
		return c04Case{P: gen.PacketOf(t, m.KXR), Variant: "xr-reserved-bits-and-unknown-blocks", Rsvd: rs(6)}
	case 5:
		return c04Case{P: gen.PacketOf(t, m.KCCFB), Variant: "ccfb-stray-bits", Rsvd: rs(5)}
	case 6:
		p := gen.PacketOf(t, m.KBYE)
		c := c04Case{P: p, Variant: "bye-reason-forms"}
		if len(p.BYE.Reason) == 0 {
			c.BYEEmptyReason = rapid.Bool().Draw(t, "emptyreason")
		}
		return c
	case 7, 8:
		k := rapid.SampledFrom([]m.Kind{m.KSR, m.KRR, m.KSDES, m.KBYE}).Draw(t, "inflate.kind")
		p := gen.PacketOf(t, k)
		return c04Case{P: p, Variant: "count-inflated", Inflate: rapid.IntRange(1, 3).Draw(t, "inflate")}
	case 14:
		// lists in frames of 64 KiB and more (the length field still fits)
		switch rapid.IntRange(0, 2).Draw(t, "big.kind") {
		case 0:
			n := rapid.SampledFrom([]int{16380, 16381, 16382, 16383, 16384, 16385, 30000}).Draw(t, "big.n")
			v := &m.NACK{Sender: 1, Media: 2}
			for i := 0; i < n; i++ {
				v.Pairs = append(v.Pairs, m.NackPair{PID: uint16(i), BLP: uint16(i * 7)})
			}
			return c04Case{P: m.Packet{Kind: m.KNACK, NACK: v}, Variant: "big-frame"}
		case 1:
			n := rapid.SampledFrom([]int{16380, 16381, 16382, 16383, 16384, 16385, 30000}).Draw(t, "big.n")
			v := &m.SLI{Sender: 1, Media: 2}
			for i := 0; i < n; i++ {
				v.Entries = append(v.Entries, m.SLIEntry{First: uint16(i & 0x1FFF), Number: uint16(i >> 2 & 0x1FFF), Picture: uint8(i & 63)})
			}
			return c04Case{P: m.Packet{Kind: m.KSLI, SLI: v}, Variant: "big-frame"}
		default:
			n := rapid.SampledFrom([]int{8189, 8190, 8191, 8192, 8193, 20000}).Draw(t, "big.n")
			v := &m.FIR{Sender: 1, Media: 2}
			for i := 0; i < n; i++ {
				v.Entries = append(v.Entries, m.FIREntry{SSRC: uint32(i), Seq: uint8(i)})
			}
			return c04Case{P: m.Packet{Kind: m.KFIR, FIR: v}, Variant: "big-frame"}
		}
	default:
		// canonical reference encoding of any D-value (values and maximal counts)
		return c04Case{P: gen.Packet(t), Variant: "canonical"}
	}
}

// genVariantEncoding is used by C09 as a source of accepted-but-not-canonical inputs.
func genVariantEncoding(t *rapid.T) (string, []byte) {
	c := genC04Case(t, false)
	c.Inflate = 0
	b, err := c.encode(gen.PionDialect)
	if err != nil {
		panic(err)
	}
	return c.Variant, b
}

// subC04Damaged: frames obtained by damaging valid encodings (the generator of C06's acceptance
// check). Whenever the library's decoder AND the reference decoder, reading as a tolerant
// receiver, both accept such a frame, the library must return the field values the
// specification assigns to those bytes - the reference's reading. Acceptance itself is not
// judged here (C06 does that in one direction, the variants above in the other).
var subC04Damaged = harness.NewSub("c04-damaged-frame-decodes-as-specified", func(c c06Accept, hd harness.Dialect) error {
	if fr, err := m.SplitFrames(c.Frame); err != nil || len(fr) != 1 {
		return nil
	}
	if c.Frame[0]&0x20 != 0 && hd.Has("padding-not-honoured:"+string(c.Kind)) {
		return nil // listed: this type's decoder does not honour RFC 3550 padding
	}
	d := gen.PionDialect
	d.REMBZeroMantissa = hd.Has("remb-zero-mantissa")
	want, rerr := m.DecodeFrameLenient(c.Frame, c.Kind, d)
	if rerr != nil {
		return nil
	}
	recv := conv.New(c.Kind)
	var perr error
	if p := harness.Guard(func() error { perr = recv.Unmarshal(exactCopy(c.Frame)); return nil }); p != nil {
		return fmt.Errorf("%s.Unmarshal panicked: %v\nframe: %s", conv.GoType(c.Kind), p, hexs(c.Frame))
	}
	if perr != nil {
		return nil
	}
	got, cerr := conv.FromPion(recv)
	if cerr != nil {
		return fmt.Errorf("HARNESS: %v", cerr)
	}
	if !conv.Equal(want, got) {
		return fmt.Errorf("%s: a frame accepted by the decoder yields other field values than the specification assigns\n%s\nframe: %s\nderived from a valid encoding by: %v", conv.GoType(c.Kind), conv.Diff(want, got), hexs(c.Frame), c.Muts)
	}
	return nil
})

func TestC04(t *testing.T) {
	defer harness.Uncaught(t)
	harness.RapidCheck(t, harness.Scale(5000, 50000), 41, func(rt *rapid.T) {
		c := genC06Accept(rt)
		harness.Eval(subC04Damaged.Name, 1)
		if _, rerr := m.DecodeFrameLenient(c.Frame, c.Kind, gen.PionDialect); rerr == nil {
			if conv.New(c.Kind).Unmarshal(exactCopy(c.Frame)) == nil {
				harness.Class("damaged-accepted-by-both:"+string(c.Kind), 1)
				h := harness.HashBytes(c.Frame)
				harness.NonTrivialHash(h)
				if len(c.Frame) <= 40 {
					harness.Sample(subC04Damaged.Name, h, c)
				}
			}
		}
		subC04Damaged.Check(rt, c)
	})
	harness.RapidCheck(t, harness.Scale(6000, 50000), 4, func(rt *rapid.T) {
		big := rapid.IntRange(0, 49).Draw(rt, "big?") == 0
		c := genC04Case(rt, big)
		nt := c.Inflate > 0
		if !nt {
			// non-trivial: the encoding is not what pion's own Marshal would produce for the value
			enc, _ := c.encode(m.Strict)
			own, err := safeMarshal(conv.ToPion(c.P))
			nt = err != nil || !bytes.Equal(own, enc)
		}
		cl := []string{"variant:" + c.Variant, "kind:" + string(c.P.Kind)}
		if nt {
			cl = append(cl, "not-own-encoder-output")
		}
		if c.Variant == "big-frame" {
			harness.Eval(subC04.Name, 1)
			for _, x := range cl {
				harness.Class(x, 1)
			}
			harness.NonTrivialHash(harness.Hash([]interface{}{c.P.Kind, len(leafKindsOf(c.P)), c.Variant, lenOfBig(c.P)}))
		} else {
			harness.Record(subC04.Name, c, nt, cl...)
		}
		subC04.Check(rt, c)
	})
}

func lenOfBig(p m.Packet) int {
	switch p.Kind {
	case m.KNACK:
		return len(p.NACK.Pairs)
	case m.KSLI:
		return len(p.SLI.Entries)
	case m.KFIR:
		return len(p.FIR.Entries)
	}
	return 0
}

// FuzzC04Frame is the coverage-guided version of c04-damaged-frame-decodes-as-specified
// (thorough tier): what the library and the reference both accept must decode to the same values.
func FuzzC04Frame(f *testing.F) {
	fuzzFrameSeeds(f)
	f.Fuzz(func(t *testing.T, data []byte, sel uint8) {
		if c, ok := fuzzFrameCase(data, sel); ok {
			subC04Damaged.Check(t, c)
		}
	})
}
