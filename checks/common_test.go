package checks

import (
	"bytes"
	"fmt"
	"reflect"

	"github.com/pion/rtcp"
	"pgregory.net/rapid"

	"verif/conv"
	"verif/gen"
	"verif/harness"
	m "verif/refmodel"
)

// valCase is a model value (the case of the value-level checks C02, C03, C05, C10).
type valCase struct {
	P m.Packet
	// Junk != 0 (C03, XR only): stale values in the blocks' exported header fields before Marshal
	Junk uint32 `json:",omitempty"`
}

// listCase is a list of model values.
type listCase struct {
	Ps []m.Packet
}

// genValue draws a D-value of any kind, occasionally a compound.
func genValue(t *rapid.T) m.Packet {
	if rapid.IntRange(0, 19).Draw(t, "compound?") == 0 {
		return gen.PacketOf(t, m.KCOMPOUND)
	}
	return gen.Packet(t)
}

func typeName(p rtcp.Packet) string {
	if p == nil {
		return "<nil>"
	}
	return reflect.TypeOf(p).String()
}

// firstDiff returns the first offset at which a and b differ outside the mask (-1 if none).
func firstDiff(a, b []byte, dontCare []bool) int {
	n := len(a)
	if len(b) < n {
		n = len(b)
	}
	for i := 0; i < n; i++ {
		if a[i] != b[i] && !(i < len(dontCare) && dontCare[i]) {
			return i
		}
	}
	if len(a) != len(b) {
		return n
	}
	return -1
}

func hexs(b []byte) string {
	if len(b) > 96 {
		return fmt.Sprintf("%x...(%d octets)", b[:96], len(b))
	}
	return fmt.Sprintf("%x", b)
}

// leafKindsOf flattens compounds.
func leafKindsOf(p m.Packet) []m.Packet {
	if p.Kind != m.KCOMPOUND {
		return []m.Packet{p}
	}
	var out []m.Packet
	for _, x := range p.Compound {
		out = append(out, leafKindsOf(x)...)
	}
	return out
}

func hasKind(p m.Packet, k m.Kind) bool {
	for _, x := range leafKindsOf(p) {
		if x.Kind == k {
			return true
		}
	}
	return false
}

// valueNonTrivial: at least one non-empty variable-length part or one field at a boundary value.
func valueNonTrivial(p m.Packet) bool {
	for _, x := range leafKindsOf(p) {
		switch x.Kind {
		case m.KSR:
			if len(x.SR.Reports) > 0 || len(x.SR.Ext) > 0 {
				return true
			}
		case m.KRR:
			if len(x.RR.Reports) > 0 || len(x.RR.Ext) > 0 {
				return true
			}
		case m.KSDES:
			if len(x.SDES.Chunks) > 0 {
				return true
			}
		case m.KBYE:
			if len(x.BYE.Sources) > 0 || len(x.BYE.Reason) > 0 {
				return true
			}
		case m.KAPP:
			if len(x.APP.Data) > 0 {
				return true
			}
		case m.KNACK:
			return true
		case m.KSLI:
			if len(x.SLI.Entries) > 0 {
				return true
			}
		case m.KFIR:
			return true
		case m.KREMB:
			if len(x.REMB.SSRCs) > 0 || x.REMB.Bitrate >= 262144 {
				return true
			}
		case m.KTWCC:
			if len(x.TWCC.Chunks) > 0 {
				return true
			}
		case m.KCCFB:
			if len(x.CCFB.Blocks) > 0 {
				return true
			}
		case m.KXR:
			if len(x.XR.Blocks) > 0 {
				return true
			}
		case m.KRAW:
			if len(x.RAW) > 4 {
				return true
			}
		case m.KPLI:
			if x.PLI.Media>>31 == 1 || x.PLI.Sender>>31 == 1 {
				return true
			}
		case m.KRRR:
			if x.RRR.Media>>31 == 1 || x.RRR.Sender>>31 == 1 {
				return true
			}
		}
	}
	return false
}

// classesOf returns histogram buckets for a value (per kind and named shapes).
func classesOf(p m.Packet) []string {
	var out []string
	for _, x := range leafKindsOf(p) {
		out = append(out, "kind:"+string(x.Kind))
		switch x.Kind {
		case m.KSR:
			out = append(out, listClass("SR.reports", len(x.SR.Reports), 31))
			if len(x.SR.Ext) > 0 {
				out = append(out, "SR.ext")
			}
		case m.KRR:
			out = append(out, listClass("RR.reports", len(x.RR.Reports), 31))
			if len(x.RR.Ext) > 0 {
				out = append(out, fmt.Sprintf("RR.ext.mod4=%d", len(x.RR.Ext)%4))
			}
		case m.KSDES:
			out = append(out, listClass("SDES.chunks", len(x.SDES.Chunks), 31))
			for _, c := range x.SDES.Chunks {
				for _, it := range c.Items {
					if len(it.Text) == 255 {
						out = append(out, "SDES.text255")
					}
				}
			}
		case m.KBYE:
			out = append(out, listClass("BYE.sources", len(x.BYE.Sources), 31))
			if len(x.BYE.Reason) > 0 {
				out = append(out, fmt.Sprintf("BYE.reason.mod4=%d", (1+len(x.BYE.Reason))%4))
			}
		case m.KTWCC:
			if twccChunksEndAtPacketEnd(x.TWCC) {
				out = append(out, "TWCC.chunks-end-at-packet-end")
			}
			if len(x.TWCC.Deltas) > 0 {
				out = append(out, "TWCC.with-deltas")
			}
		case m.KCCFB:
			for _, b := range x.CCFB.Blocks {
				if len(b.Metrics) == 1 {
					out = append(out, "CCFB.one-metric-block")
				}
				if len(b.Metrics) > 0 && int(b.BeginSeq)+len(b.Metrics)-1 > 65535 {
					out = append(out, "CCFB.block-spans-wrap")
				}
				if len(b.Metrics)%2 == 1 {
					out = append(out, "CCFB.odd-metrics")
				}
			}
		case m.KREMB:
			out = append(out, listClass("REMB.ssrcs", len(x.REMB.SSRCs), 255))
		case m.KNACK:
			out = append(out, listClass("NACK.pairs", len(x.NACK.Pairs), 253))
		case m.KSLI:
			out = append(out, listClass("SLI.entries", len(x.SLI.Entries), 253))
		}
	}
	if p.Kind == m.KCOMPOUND {
		out = append(out, "compound")
	}
	return out
}

func listClass(name string, n, max int) string {
	switch {
	case n == 0:
		return name + "=0"
	case n == 1:
		return name + "=1"
	case n == max:
		return name + "=max"
	}
	return name + "=mid"
}

// twccChunksEndAtPacketEnd: no deltas and no padding after the last chunk.
func twccChunksEndAtPacketEnd(v *m.TWCC) bool {
	return len(v.Chunks) > 0 && len(v.Deltas) == 0 && (20+2*len(v.Chunks))%4 == 0
}

// ccfbHasOneMetricBlock / ccfbSpansWrap: the input classes of two pinned CCFB findings.
func ccfbHasOneMetricBlock(p m.Packet) bool {
	for _, x := range leafKindsOf(p) {
		if x.Kind == m.KCCFB {
			for _, b := range x.CCFB.Blocks {
				if len(b.Metrics) == 1 {
					return true
				}
			}
		}
	}
	return false
}

func ccfbSpansWrap(p m.Packet) bool {
	for _, x := range leafKindsOf(p) {
		if x.Kind == m.KCCFB {
			for _, b := range x.CCFB.Blocks {
				if len(b.Metrics) > 1 && int(b.BeginSeq)+len(b.Metrics)-1 > 65535 {
					return true
				}
			}
		}
	}
	return false
}

// decodeDirect decodes b with a fresh receiver of kind k through the type's own decoder.
func decodeDirect(k m.Kind, b []byte) (m.Packet, error) {
	recv := conv.New(k)
	in := exactCopy(b)
	if err := recv.Unmarshal(in); err != nil {
		return m.Packet{}, err
	}
	if !bytes.Equal(in, b) {
		return m.Packet{}, fmt.Errorf("decoder modified its input buffer")
	}
	return conv.FromPion(recv)
}

// decodeDatagram decodes b through rtcp.Unmarshal.
// exactCopy copies b into a slice whose capacity equals its length, so that a decoder that
// reads past the end of what it was given panics instead of seeing spare capacity.
func exactCopy(b []byte) []byte {
	in := make([]byte, len(b))
	copy(in, b)
	return in[:len(b):len(b)]
}

func decodeDatagram(b []byte) ([]rtcp.Packet, error) {
	in := exactCopy(b)
	ps, err := rtcp.Unmarshal(in)
	if err != nil {
		if ps != nil {
			return nil, fmt.Errorf("rtcp.Unmarshal returned an error (%v) together with %d packets", err, len(ps))
		}
		return nil, err
	}
	if !bytes.Equal(in, b) {
		return nil, fmt.Errorf("rtcp.Unmarshal modified its input buffer")
	}
	return ps, nil
}

// safeUnmarshal / safeMarshal are used for the bookkeeping calls made outside an oracle
// (classification of generated cases): a panic there is turned into an error so that the
// oracle that follows reports it with a replayable case.
func safeUnmarshal(b []byte) (ps []rtcp.Packet, err error) {
	if perr := harness.Guard(func() error { ps, err = rtcp.Unmarshal(append([]byte(nil), b...)); return nil }); perr != nil {
		return nil, perr
	}
	return ps, err
}

func safeMarshal(p rtcp.Packet) (b []byte, err error) {
	if perr := harness.Guard(func() error { b, err = p.Marshal(); return nil }); perr != nil {
		return nil, perr
	}
	return b, err
}
