package checks

import (
	"fmt"
	"testing"

	"github.com/pion/rtcp"
	"pgregory.net/rapid"

	"verif/conv"
	"verif/gen"
	"verif/harness"
	m "verif/refmodel"
)

// C11: CompoundPacket enforces the RFC 3550 compound rules exactly.

// The ten member kinds of the property's quantifier.
var c11Kinds = []string{"SR", "RR", "SDES+CNAME", "SDES-noCNAME", "SDES-empty", "BYE", "FB", "APP", "XR", "RAW"}

type c11Case struct {
	Members []m.Packet
	// Fault: "" none; "unmarshalable-member" plants a member whose Marshal fails;
	// "truncated-tail" appends a truncated frame to the datagram given to Unmarshal.
	Fault string `json:",omitempty"`
}

func c11Member(t *rapid.T, kind string) m.Packet {
	switch kind {
	case "SR":
		return gen.PacketOf(t, m.KSR)
	case "RR":
		return gen.PacketOf(t, m.KRR)
	case "SDES+CNAME":
		return m.Packet{Kind: m.KSDES, SDES: gen.SDESWithCNAME(t)}
	case "SDES-noCNAME":
		s := gen.SDES(t)
		if len(s.Chunks) == 0 {
			s.Chunks = append(s.Chunks, m.SDESChunk{Source: gen.U32(t, "src")})
		}
		for i := range s.Chunks {
			var items []m.SDESItem
			for _, it := range s.Chunks[i].Items {
				if it.Type != 1 {
					items = append(items, it)
				}
			}
			s.Chunks[i].Items = items
		}
		return m.Packet{Kind: m.KSDES, SDES: s}
	case "SDES-empty":
		return m.Packet{Kind: m.KSDES, SDES: &m.SDES{}}
	case "BYE":
		return gen.PacketOf(t, m.KBYE)
	case "FB":
		return gen.PacketOf(t, rapid.SampledFrom([]m.Kind{m.KPLI, m.KNACK, m.KREMB, m.KTWCC, m.KFIR, m.KRRR}).Draw(t, "fb.kind"))
	case "APP":
		return gen.PacketOf(t, m.KAPP)
	case "XR":
		return gen.PacketOf(t, m.KXR)
	case "RAW":
		return gen.PacketOf(t, m.KRAW)
	}
	panic(kind)
}

var subC11 = harness.NewSub("c11-compound-grammar", func(c c11Case, d harness.Dialect) error {
	accept := m.CompoundAccept(c.Members)
	cp := rtcp.CompoundPacket{}
	for _, x := range c.Members {
		cp = append(cp, conv.ToPion(x))
	}
	if c.Fault == "unmarshalable-member" {
		// 32 report blocks cannot be encoded; the sequence grammar is unaffected
		bad := &rtcp.ReceiverReport{SSRC: 1, Reports: make([]rtcp.ReceptionReport, 32)}
		cp = append(cp, bad)
	}
	verr := cp.Validate()
	if (verr == nil) != accept {
		return fmt.Errorf("Validate() = %v but the RFC 3550 compound grammar says accept=%v\nkinds: %v", verr, accept, kindsOf(c.Members))
	}
	b, merr := cp.Marshal()
	wantMarshal := accept && c.Fault != "unmarshalable-member"
	if (merr == nil) != wantMarshal {
		return fmt.Errorf("CompoundPacket.Marshal() error = %v, want success=%v (accept=%v, fault=%q)\nkinds: %v", merr, wantMarshal, accept, c.Fault, kindsOf(c.Members))
	}
	if merr != nil && len(b) != 0 {
		return fmt.Errorf("CompoundPacket.Marshal() returned %d bytes together with error %v", len(b), merr)
	}
	if c.Fault == "unmarshalable-member" {
		return nil
	}
	// Unmarshal of the concatenated member encodings (the members decode by construction)
	var wire []byte
	for _, x := range c.Members {
		mb, err := conv.ToPion(x).Marshal()
		if err != nil {
			return fmt.Errorf("member %s does not marshal: %v", x.Kind, err)
		}
		wire = append(wire, mb...)
	}
	wantUnmarshal := accept
	if c.Fault == "truncated-tail" {
		wire = append(wire, 0x80, 201, 0, 1, 0, 0)
		wantUnmarshal = false
	}
	var got rtcp.CompoundPacket
	uerr := got.Unmarshal(append([]byte(nil), wire...))
	if len(c.Members) == 0 && c.Fault == "" {
		wantUnmarshal = false
	}
	if (uerr == nil) != wantUnmarshal {
		return fmt.Errorf("CompoundPacket.Unmarshal error = %v, want success=%v (accept=%v, fault=%q)\nkinds: %v", uerr, wantUnmarshal, accept, c.Fault, kindsOf(c.Members))
	}
	if !accept {
		return nil
	}
	// accepted: CNAME, DestinationSSRC, MarshalSize
	var wantCNAME []byte
	for _, x := range c.Members[1:] {
		if x.Kind == m.KSDES {
			wantCNAME, _ = m.FirstCNAME(x.SDES)
			break
		}
	}
	cn, cerr := cp.CNAME()
	if cerr != nil || cn != string(wantCNAME) {
		return fmt.Errorf("CNAME() = %q, %v; want %q, nil\nkinds: %v", cn, cerr, wantCNAME, kindsOf(c.Members))
	}
	if got, want := cp.DestinationSSRC(), m.DestSSRC(c.Members[0]); !eq32(got, want) {
		return fmt.Errorf("CompoundPacket.DestinationSSRC() = %v, first member's is %v", got, want)
	}
	sum := 0
	for _, x := range cp {
		sum += x.MarshalSize()
	}
	if cp.MarshalSize() != sum || (merr == nil && len(b) != sum) {
		return fmt.Errorf("CompoundPacket.MarshalSize() = %d, sum of members %d, len(Marshal()) %d", cp.MarshalSize(), sum, len(b))
	}
	return nil
})

func kindsOf(ps []m.Packet) []string {
	var out []string
	for _, p := range ps {
		k := string(p.Kind)
		if p.Kind == m.KSDES {
			if _, ok := m.FirstCNAME(p.SDES); ok {
				k += "+CNAME"
			} else if len(p.SDES.Chunks) == 0 {
				k += "-empty"
			} else {
				k += "-noCNAME"
			}
		}
		out = append(out, k)
	}
	return out
}

func TestC11(t *testing.T) {
	defer harness.Uncaught(t)
	maxLen := 4
	if harness.Thorough() {
		maxLen = 6
	}
	base := int(harness.SeedFor(11) % (1 << 30))
	// exhaustive over all sequences of the ten kinds up to maxLen
	total := int64(0)
	for l, n := 0, int64(1); l <= maxLen; l, n = l+1, n*10 {
		total += n
	}
	lo, hi := harness.ShardRange(total)
	var evals, accepted int64
	idx := int64(0)
	for l, n := 0, int64(1); l <= maxLen; l, n = l+1, n*10 {
		for code := int64(0); code < n; code++ {
			if idx < lo || idx >= hi {
				idx++
				continue
			}
			idx++
			kinds := make([]string, l)
			x := code
			for i := 0; i < l; i++ {
				kinds[i] = c11Kinds[x%10]
				x /= 10
			}
			g := rapid.Custom(func(rt *rapid.T) c11Case {
				var c c11Case
				_ = rapid.Bool().Draw(rt, "_") // a Custom generator must consume at least one draw
				for _, k := range kinds {
					c.Members = append(c.Members, c11Member(rt, k))
				}
				return c
			})
			c := g.Example(base + int(idx))
			subC11.Check(t, c)
			evals++
			if m.CompoundAccept(c.Members) {
				accepted++
				// fault arms on accepted sequences
				for _, f := range []string{"unmarshalable-member", "truncated-tail"} {
					c2 := c
					c2.Fault = f
					subC11.Check(t, c2)
					evals++
				}
				if accepted%97 == 0 {
					harness.Sample(subC11.Name, harness.Hash(kinds), map[string]interface{}{"kinds": kindsOf(c.Members), "accept": true})
				}
			} else if evals%997 == 0 {
				harness.Sample(subC11.Name, harness.Hash(kinds), map[string]interface{}{"kinds": kindsOf(c.Members), "accept": false})
			}
		}
	}
	harness.Eval(subC11.Name+"/exhaustive", evals)
	harness.NonTrivialDistinct(hi - lo)
	harness.Class("accepted-sequences", accepted)
	harness.Class("rejected-sequences", hi-lo-accepted)
	harness.Exhaustive(subC11.Name+"/exhaustive", fmt.Sprintf("all %d sequences of length 0..%d over the 10 member kinds, members drawn per sequence; fault arms on every accepted one", total, maxLen))

	// longer sequences, random
	harness.RapidCheck(t, harness.Scale(600, 6000), 111, func(rt *rapid.T) {
		n := rapid.IntRange(maxLen+1, 40).Draw(rt, "len")
		var c c11Case
		// bias towards sequences near the accept/reject boundary: SR/RR first, RRs, then an SDES
		for i := 0; i < n; i++ {
			var k string
			switch {
			case i == 0:
				k = rapid.SampledFrom([]string{"SR", "RR", "RR", "SR", "BYE", "SDES+CNAME"}).Draw(rt, "k0")
			case rapid.IntRange(0, 2).Draw(rt, "rr?") > 0 && i < n/2:
				k = "RR"
			default:
				k = rapid.SampledFrom(c11Kinds).Draw(rt, "k")
			}
			c.Members = append(c.Members, c11Member(rt, k))
		}
		c.Fault = rapid.SampledFrom([]string{"", "", "unmarshalable-member", "truncated-tail"}).Draw(rt, "fault")
		harness.Record(subC11.Name, map[string]interface{}{"kinds": kindsOf(c.Members), "fault": c.Fault}, true, fmt.Sprintf("long-accept=%v", m.CompoundAccept(c.Members)))
		subC11.Check(rt, c)
	})
}
