package checks

import (
	"fmt"
	"os"
	"sort"
	"testing"

	"pgregory.net/rapid"

	"verif/conv"
	"verif/gen"
	m "verif/refmodel"
)

// TestExploreAcceptance is a development aid, not a check: it mutates valid single frames and
// tabulates where the library's typed decoder and the reference decoder disagree on
// *acceptance*. Each class of disagreement was triaged by hand (DESIGN.md 8.3c): it is either
// leniency the properties allow, a listed finding, or a frame that is internally inconsistent
// and therefore belongs in C06's generator of malformed frames. Run with EXPLORE=1.
func TestExploreAcceptance(t *testing.T) {
	if os.Getenv("EXPLORE") == "" {
		t.Skip("development aid; set EXPLORE=1")
	}
	type cls struct {
		n      int
		sample string
	}
	pionOnly := map[string]*cls{}
	refOnly := map[string]*cls{}
	for _, k := range m.TypedKinds {
		k := k
		g := rapid.Custom(func(rt *rapid.T) []byte {
			p := gen.PacketOf(rt, k)
			shrinkBig(p)
			e, err := m.Encode(c06Readable(p), &m.EncOpts{D: gen.PionDialect})
			if err != nil {
				panic(err)
			}
			b := e.B
			if len(b) > 400 {
				return []byte{0}
			}
			for i := rapid.IntRange(1, 3).Draw(rt, "nmut"); i > 0; i-- {
				switch rapid.IntRange(0, 3).Draw(rt, "mut") {
				case 0:
					gen.MutateField(rt, b)
				case 1:
					if len(b) > 8 { // cut words, fix length
						b = b[:len(b)-4*rapid.IntRange(1, (len(b)-4)/4).Draw(rt, "cut")]
						w := len(b)/4 - 1
						b[2], b[3] = byte(w>>8), byte(w)
					}
				case 2: // append words, fix length
					b = append(b, gen.BytesN(rt, 4*rapid.IntRange(1, 3).Draw(rt, "add"), "added")...)
					w := len(b)/4 - 1
					b[2], b[3] = byte(w>>8), byte(w)
				case 3:
					b[0] ^= 0x20
				}
			}
			return b
		})
		n, base := 30000, 0
		if v := os.Getenv("EXPLORE_N"); v != "" {
			fmt.Sscan(v, &n)
		}
		if v := os.Getenv("EXPLORE_BASE"); v != "" {
			fmt.Sscan(v, &base)
		}
		for i := 0; i < n; i++ {
			b := g.Example(base + i)
			if fr, err := m.SplitFrames(b); err != nil || len(fr) != 1 {
				continue
			}
			_, rerr := m.DecodeFrameLenient(b, k, gen.PionDialect)
			perr := conv.New(k).Unmarshal(exactCopy(b))
			if (rerr == nil) == (perr == nil) {
				continue
			}
			if perr == nil {
				key := fmt.Sprintf("%s: reference rejects (%.40v)", k, rerr)
				if pionOnly[key] == nil {
					pionOnly[key] = &cls{sample: hexs(b)}
				}
				pionOnly[key].n++
			} else {
				key := fmt.Sprintf("%s: library rejects (%.40v)", k, perr)
				if refOnly[key] == nil {
					refOnly[key] = &cls{sample: hexs(b)}
				}
				refOnly[key].n++
			}
		}
	}
	dump := func(title string, mm map[string]*cls) {
		var ks []string
		for k := range mm {
			ks = append(ks, k)
		}
		sort.Strings(ks)
		fmt.Println("==", title)
		for _, k := range ks {
			fmt.Printf("%6d  %s\n        e.g. %.120s\n", mm[k].n, k, mm[k].sample)
		}
	}
	dump("accepted by the library, rejected by the reference", pionOnly)
	dump("accepted by the reference, rejected by the library", refOnly)
}
