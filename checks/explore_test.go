package checks

import (
	"encoding/json"
	"fmt"
	"os"
	"sort"
	"testing"

	"pgregory.net/rapid"

	"verif/conv"
	"verif/gen"
	m "verif/refmodel"
)

// TestExploreAcceptance is a development aid, not a check: it mutates valid single frames and
// tabulates where the library's typed decoder and the reference decoder disagree on
// *acceptance*. Each class of disagreement was triaged by hand (DESIGN.md 8.3c): it is either
// leniency the properties allow, a listed finding, or a frame that is internally inconsistent
// and therefore belongs in C06's generator of malformed frames. Run with EXPLORE=1.
func TestExploreAcceptance(t *testing.T) {
	if os.Getenv("EXPLORE") == "" {
		t.Skip("development aid; set EXPLORE=1")
	}
	type cls struct {
		n      int
		sample string
	}
	pionOnly := map[string]*cls{}
	refOnly := map[string]*cls{}
	valDiff := map[string]*cls{}
	for _, k := range m.TypedKinds {
		k := k
		g := rapid.Custom(func(rt *rapid.T) []byte {
			p := gen.PacketOf(rt, k)
			shrinkBig(p)
			e, err := m.Encode(c06Readable(p), &m.EncOpts{D: gen.PionDialect})
			if err != nil {
				panic(err)
			}
			b := e.B
			if len(b) > 400 {
				return []byte{0}
			}
			for i := rapid.IntRange(1, 3).Draw(rt, "nmut"); i > 0; i-- {
				switch rapid.IntRange(0, 3).Draw(rt, "mut") {
				case 0:
					gen.MutateField(rt, b)
				case 1:
					if len(b) > 8 { // cut words, fix length
						b = b[:len(b)-4*rapid.IntRange(1, (len(b)-4)/4).Draw(rt, "cut")]
						w := len(b)/4 - 1
						b[2], b[3] = byte(w>>8), byte(w)
					}
				case 2: // append words, fix length
					b = append(b, gen.BytesN(rt, 4*rapid.IntRange(1, 3).Draw(rt, "add"), "added")...)
					w := len(b)/4 - 1
					b[2], b[3] = byte(w>>8), byte(w)
				case 3:
					b[0] ^= 0x20
				}
			}
			return b
		})
		n, base := 30000, 0
		if v := os.Getenv("EXPLORE_N"); v != "" {
			fmt.Sscan(v, &n)
		}
		if v := os.Getenv("EXPLORE_BASE"); v != "" {
			fmt.Sscan(v, &base)
		}
		for i := 0; i < n; i++ {
			b := g.Example(base + i)
			if fr, err := m.SplitFrames(b); err != nil || len(fr) != 1 {
				continue
			}
			rv, rerr := m.DecodeFrameLenient(b, k, gen.PionDialect)
			recv := conv.New(k)
			perr := recv.Unmarshal(exactCopy(b))
			if rerr == nil && perr == nil {
				pv, cerr := conv.FromPion(recv)
				if cerr == nil && !conv.Equal(rv, pv) {
					if dd := gen.PionDialect; true {
						dd.REMBZeroMantissa = true
						if rv2, e2 := m.DecodeFrameLenient(b, k, dd); e2 == nil && conv.Equal(rv2, pv) {
							continue // the listed REMB mantissa-0 finding
						}
					}
					key := fmt.Sprintf("%s P=%v: values differ in %s", k, b[0]&0x20 != 0, diffFields(rv, pv))
					if valDiff[key] == nil {
						valDiff[key] = &cls{sample: hexs(b)}
					}
					valDiff[key].n++
				}
				continue
			}
			if (rerr == nil) == (perr == nil) {
				continue
			}
			if perr == nil {
				key := fmt.Sprintf("%s: reference rejects (%.40v)", k, rerr)
				if pionOnly[key] == nil {
					pionOnly[key] = &cls{sample: hexs(b)}
				}
				pionOnly[key].n++
			} else {
				key := fmt.Sprintf("%s: library rejects (%.40v)", k, perr)
				if refOnly[key] == nil {
					refOnly[key] = &cls{sample: hexs(b)}
				}
				refOnly[key].n++
			}
		}
	}
	dump := func(title string, mm map[string]*cls) {
		var ks []string
		for k := range mm {
			ks = append(ks, k)
		}
		sort.Strings(ks)
		fmt.Println("==", title)
		for _, k := range ks {
			fmt.Printf("%6d  %s\n        e.g. %.120s\n", mm[k].n, k, mm[k].sample)
		}
	}
	dump("accepted by the library, rejected by the reference", pionOnly)
	dump("accepted by the reference, rejected by the library", refOnly)
	dump("accepted by both, decoded values differ (reference first)", valDiff)
}

// diffFields names the top-level fields of the packet's model in which two values differ.
func diffFields(a, b m.Packet) string {
	var ja, jb map[string]map[string]json.RawMessage
	_ = json.Unmarshal([]byte(conv.JSON(a)), &ja)
	_ = json.Unmarshal([]byte(conv.JSON(b)), &jb)
	var out []string
	for k, va := range ja {
		if k == "Kind" {
			continue
		}
		for f, x := range va {
			if string(jb[k][f]) != string(x) {
				out = append(out, f)
			}
		}
	}
	sort.Strings(out)
	return fmt.Sprint(out)
}
