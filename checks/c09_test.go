package checks

import (
	"bytes"
	"fmt"
	"strings"
	"testing"

	"github.com/pion/rtcp"
	"pgregory.net/rapid"

	"verif/conv"
	"verif/gen"
	"verif/harness"
	m "verif/refmodel"
)

// C09: re-encoding a decoded datagram is stable (decode-encode-decode is idempotent).

type c09Case struct {
	B m.Bytes
}

// twccHeaderConsistent: the decoded (carried verbatim) header matches the content, as the
// property requires for TransportLayerCC to be covered.
func twccHeaderConsistent(p *rtcp.TransportLayerCC) bool {
	n := 20 + 2*len(p.PacketChunks)
	for _, d := range p.RecvDeltas {
		if d.Type == rtcp.TypeTCCPacketReceivedSmallDelta {
			n++
		} else {
			n += 2
		}
	}
	pad := (4 - n%4) % 4
	if int(p.Header.Length) != (n+pad)/4-1 {
		return false
	}
	if p.Header.Padding && pad == 0 {
		return false
	}
	return true
}

func rembHasZeroMantissa(frame []byte) bool {
	return len(frame) >= 20 && frame[1] == 206 && frame[0]&0x1f == 15 && frame[17]&3 == 0 && frame[18] == 0 && frame[19] == 0
}

var subC09 = harness.NewSub("c09-reencode-stable", func(c c09Case, d harness.Dialect) error {
	ps, err := decodeDatagram(c.B)
	if err != nil {
		return nil // the property quantifies over accepted datagrams
	}
	if d.Has("remb-zero-mantissa") {
		if frames, ferr := m.SplitFrames(c.B); ferr == nil {
			for _, f := range frames {
				if rembHasZeroMantissa(f) {
					return nil
				}
			}
		}
	}
	first, cerr := conv.FromPionList(ps)
	if cerr != nil {
		return fmt.Errorf("HARNESS: %v", cerr)
	}
	exempt := false
	var out []byte
	for i, p := range ps {
		var b []byte
		var merr error
		if perr := harness.Guard(func() error { b, merr = p.Marshal(); return nil }); perr != nil {
			return fmt.Errorf("Marshal of packet %d (%s) decoded from an accepted datagram panicked: %v\ndatagram: %s", i, typeName(p), perr, hexs(c.B))
		}
		if merr != nil {
			return nil // the property only speaks about successful re-encoding
		}
		if tw, ok := p.(*rtcp.TransportLayerCC); ok && !twccHeaderConsistent(tw) {
			exempt = true
			continue
		}
		// per packet: Unmarshal(p.Marshal()) is [p]
		again, derr := decodeDatagram(b)
		if derr != nil {
			return fmt.Errorf("packet %d (%s): its re-encoding is rejected: %v\nre-encoding: %s\ndatagram: %s", i, typeName(p), derr, hexs(b), hexs(c.B))
		}
		if len(again) != 1 {
			return fmt.Errorf("packet %d (%s): its re-encoding decodes to %d packets\nre-encoding: %s", i, typeName(p), len(again), hexs(b))
		}
		if typeName(again[0]) != typeName(p) {
			return fmt.Errorf("packet %d: %s re-encodes to bytes that decode as %s\nre-encoding: %s", i, typeName(p), typeName(again[0]), hexs(b))
		}
		g, cerr := conv.FromPion(again[0])
		if cerr != nil {
			return fmt.Errorf("HARNESS: %v", cerr)
		}
		if !conv.Equal(first[i], g) {
			return fmt.Errorf("packet %d (%s) changes under decode-encode-decode\n%s\noriginal frame in: %s\nre-encoding: %s", i, typeName(p), conv.Diff(first[i], g), hexs(c.B), hexs(b))
		}
		out = append(out, b...)
	}
	if exempt {
		return nil
	}
	second, derr := decodeAll(out)
	if derr != nil {
		return fmt.Errorf("the re-encoded datagram is rejected: %v\nre-encoding: %s\noriginal: %s", derr, hexs(out), hexs(c.B))
	}
	if !conv.EqualList(first, second.vals) {
		return fmt.Errorf("the re-encoded datagram decodes to a different packet list (%d vs %d packets)", len(first), len(second.vals))
	}
	// the way a forwarder does it: one Unmarshal of the received buffer, one Marshal of the list.
	// The packets may alias the received buffer; re-serialising them must neither change them
	// nor produce other bytes than member-by-member encoding does.
	buf := append(make([]byte, 0, len(c.B)+16), c.B...)
	ps2, err2 := safeUnmarshal(buf)
	if err2 != nil {
		return fmt.Errorf("the datagram is accepted once and rejected the second time: %v", err2)
	}
	var all []byte
	var merr error
	if perr := harness.Guard(func() error { all, merr = rtcp.Marshal(ps2); return nil }); perr != nil {
		return fmt.Errorf("rtcp.Marshal of the decoded list panicked: %v\ndatagram: %s", perr, hexs(c.B))
	}
	if merr != nil {
		return fmt.Errorf("every decoded packet marshals alone but rtcp.Marshal of the list fails: %v", merr)
	}
	if !bytes.Equal(all, out) {
		return fmt.Errorf("rtcp.Marshal of the decoded list differs from the concatenation of the members' encodings\nlist:    %s\nmembers: %s", hexs(all), hexs(out))
	}
	after, cerr := conv.FromPionList(ps2)
	if cerr != nil {
		return fmt.Errorf("HARNESS: %v", cerr)
	}
	if !conv.EqualList(first, after) {
		return fmt.Errorf("re-serialising the decoded list with rtcp.Marshal changed the decoded packets themselves\ndatagram: %s", hexs(c.B))
	}
	return nil
})

// genAcceptedish draws inputs with a high acceptance rate that are mostly not canonical.
func genAcceptedish(t *rapid.T, big bool) (string, []byte) {
	hi := 10
	if big {
		hi = 11
	}
	switch rapid.IntRange(0, hi).Draw(t, "c09.kind") {
	case 10:
		// an XR report block carrying surplus words inside its own block length (a receiver
		// skips what it does not understand; RFC 3611 blocks are self-delimiting)
		x := gen.XR(t, 4)
		for len(x.Blocks) == 0 {
			x = gen.XR(t, 4)
		}
		e, err := m.Encode(m.Packet{Kind: m.KXR, XR: x}, nil)
		if err != nil {
			panic(err)
		}
		b := e.B
		// walk to a drawn block
		target := rapid.IntRange(0, len(x.Blocks)-1).Draw(t, "xr.block")
		pos := 8
		for i := 0; i < target; i++ {
			pos += 4 * (int(b[pos+2])<<8 | int(b[pos+3]) + 1)
		}
		words := int(b[pos+2])<<8 | int(b[pos+3])
		end := pos + 4*(words+1)
		k := rapid.IntRange(1, 3).Draw(t, "xr.surplus")
		extra := gen.BytesN(t, 4*k, "xr.surplus.bytes")
		nb := append(append(append([]byte(nil), b[:end]...), extra...), b[end:]...)
		nb[pos+2], nb[pos+3] = byte((words+k)>>8), byte(words+k)
		w := len(nb)/4 - 1
		nb[2], nb[3] = byte(w>>8), byte(w)
		return "xr-block-with-surplus-words", nb
	case 8, 9:
		// RFC 3550 padding on any packet type: P bit set, optional extra words, and a final
		// octet that looks like a padding count (decoders differ in whether they honour it)
		p := gen.Packet(t)
		e, err := m.Encode(p, &m.EncOpts{D: gen.PionDialect})
		if err != nil {
			panic(err)
		}
		b := append(e.B, gen.BytesN(t, 4*rapid.IntRange(0, 3).Draw(t, "pad.words"), "pad")...)
		if len(b) >= 8 {
			b[0] |= 0x20
			b[len(b)-1] = byte(rapid.SampledFrom([]int{0, 1, 2, 3, 4, 5, 7, 8, 9, 12, 16, 255}).Draw(t, "pad.count"))
			w := len(b)/4 - 1
			if w <= 0xFFFF {
				b[2], b[3] = byte(w>>8), byte(w)
			}
		}
		return "padded-any-type", b
	case 0, 1:
		k, b := genVariantEncoding(t)
		return "variant:" + k, b
	case 2:
		// concatenation of variants / seeds
		n := rapid.IntRange(2, 5).Draw(t, "n")
		var b []byte
		for i := 0; i < n; i++ {
			if rapid.Bool().Draw(t, "variant") {
				_, f := genVariantEncoding(t)
				b = append(b, f...)
			} else {
				p := gen.Packet(t)
				e, err := m.Encode(p, &m.EncOpts{D: gen.PionDialect})
				if err != nil {
					panic(err)
				}
				b = append(b, e.B...)
			}
		}
		return "concatenation", b
	case 3:
		// frame extended by whole words with the length field fixed up (surplus octets inside the frame)
		p := gen.Packet(t)
		e, err := m.Encode(p, &m.EncOpts{D: gen.PionDialect})
		if err != nil {
			panic(err)
		}
		b := append(e.B, gen.BytesN(t, 4*rapid.IntRange(1, 4).Draw(t, "words"), "surplus")...)
		w := len(b)/4 - 1
		if w <= 0xFFFF {
			b[2], b[3] = byte(w>>8), byte(w)
		}
		return "surplus-words-inside-frame", b
	case 4:
		_, b := genTWCCBytes(t)
		return "twcc-targeted", b
	case 11:
		return "big-frame", gen.BigFrame(t)
	default:
		k, b := gen.HostileBytes(t, false)
		return "hostile:" + strings.SplitN(k, ":", 2)[0], b
	}
}

func TestC09(t *testing.T) {
	defer harness.Uncaught(t)
	harness.RapidCheck(t, harness.Scale(6000, 50000), 9, func(rt *rapid.T) {
		big := rapid.IntRange(0, 29).Draw(rt, "big?") == 0
		kind, b := genAcceptedish(rt, big)
		c := c09Case{B: b}
		harness.Eval(subC09.Name, 1)
		ps, err := safeUnmarshal(b)
		if err == nil {
			harness.Class("accepted:"+kind, 1)
			var out []byte
			ok := true
			for _, p := range ps {
				var pb []byte
				var merr error
				if harness.Guard(func() error { pb, merr = p.Marshal(); return nil }) != nil || merr != nil {
					ok = false
					break
				}
				out = append(out, pb...)
			}
			nonCanonical := ok && !bytes.Equal(out, b)
			if nonCanonical {
				harness.Class("accepted-non-canonical", 1)
			}
			if nonCanonical || len(ps) >= 2 {
				h := harness.HashBytes(b)
				harness.NonTrivialHash(h)
				if len(b) <= 96 {
					harness.Sample(subC09.Name, h, map[string]interface{}{"B": m.Bytes(b), "gen": kind, "non_canonical": nonCanonical, "packets": len(ps)})
				}
			}
		} else {
			harness.Class("rejected:"+kind, 1)
		}
		subC09.Check(rt, c)
	})
}

// FuzzC09Reencode: coverage-guided search with the semantic oracle inside the target.
func FuzzC09Reencode(f *testing.F) {
	g := rapid.Custom(func(t *rapid.T) []byte { _, b := genAcceptedish(t, false); return b })
	for i := 0; i < 200; i++ {
		if b := g.Example(i); len(b) <= 2048 {
			f.Add(b)
		}
	}
	f.Fuzz(func(t *testing.T, data []byte) {
		subC09.Check(t, c09Case{B: data})
	})
}
