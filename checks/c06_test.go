package checks

import (
	"encoding/binary"
	"fmt"
	"testing"

	"github.com/pion/rtcp"
	"pgregory.net/rapid"

	"verif/conv"
	"verif/gen"
	"verif/harness"
	m "verif/refmodel"
)

// C06: datagram decoding splits at length fields, is local, and is all-or-nothing.

type c06Case struct {
	Frames []m.Bytes
	// Valid[i]: frame i is a well-formed packet by construction (an encoding of a D-value in
	// the form the library reads, the library's own output, or a raw frame of an unregistered
	// type), so it must be accepted - alone and in any datagram.
	Valid []bool `json:",omitempty"`
	// Fault: "", "truncate", "surplus", "overlong-header", "empty"
	Fault string `json:",omitempty"`
	Arg   int    `json:",omitempty"` // truncate: octets removed from the end; surplus: octets appended
	Split int    `json:",omitempty"` // frame index at which a||b is split for the concatenation law
}

type decoded struct {
	types []string
	vals  []m.Packet
}

func decodeAll(b []byte) (*decoded, error) {
	ps, err := decodeDatagram(b)
	if err != nil {
		return nil, err
	}
	d := &decoded{}
	for _, p := range ps {
		v, cerr := conv.FromPion(p)
		if cerr != nil {
			return nil, fmt.Errorf("HARNESS: %v", cerr)
		}
		d.types = append(d.types, typeName(p))
		d.vals = append(d.vals, v)
	}
	return d, nil
}

func sameDecoded(a, b *decoded) error {
	if len(a.vals) != len(b.vals) {
		return fmt.Errorf("%d packets vs %d", len(a.vals), len(b.vals))
	}
	for i := range a.vals {
		if a.types[i] != b.types[i] {
			return fmt.Errorf("packet %d: type %s vs %s", i, a.types[i], b.types[i])
		}
		if !conv.Equal(a.vals[i], b.vals[i]) {
			return fmt.Errorf("packet %d (%s) differs\n%s", i, a.types[i], conv.Diff(a.vals[i], b.vals[i]))
		}
	}
	return nil
}

var subC06 = harness.NewSub("c06-datagram-split-local-all-or-nothing", func(c c06Case, _ harness.Dialect) error {
	var dg []byte
	for _, f := range c.Frames {
		dg = append(dg, f...)
	}
	// the frames are delimited by the reference splitter, not by pion
	if c.Fault != "empty" {
		frames, err := m.SplitFrames(dg)
		if err != nil || len(frames) != len(c.Frames) {
			return fmt.Errorf("GENERATOR BUG: frames are not well framed: %v", err)
		}
	}
	switch c.Fault {
	case "empty":
		ps, err := rtcp.Unmarshal([]byte{})
		if err == nil || ps != nil {
			return fmt.Errorf("empty datagram: got %d packets, error %v; want an error and no packets", len(ps), err)
		}
		ps, err = rtcp.Unmarshal(nil)
		if err == nil || ps != nil {
			return fmt.Errorf("nil datagram: got %d packets, error %v; want an error and no packets", len(ps), err)
		}
		return nil
	case "truncate":
		cut := dg[:len(dg)-c.Arg]
		if len(cut) == 0 {
			return nil
		}
		if fr, err := m.SplitFrames(cut); err == nil {
			_ = fr
			return nil // the cut fell on a frame boundary: not a fault
		}
		ps, err := rtcp.Unmarshal(append([]byte(nil), cut...))
		if err == nil || ps != nil {
			return fmt.Errorf("datagram truncated by %d octets (inside a frame): got %d packets, error %v; want an error and no packets\ndatagram: %s", c.Arg, len(ps), err, hexs(cut))
		}
		return nil
	case "surplus":
		ext := append(append([]byte(nil), dg...), make([]byte, c.Arg)...)
		for i := 0; i < c.Arg; i++ {
			ext[len(dg)+i] = 0x80 + byte(i)
		}
		ps, err := rtcp.Unmarshal(ext)
		if err == nil || ps != nil {
			return fmt.Errorf("%d surplus octets after the last frame: got %d packets, error %v; want an error and no packets", c.Arg, len(ps), err)
		}
		return nil
	case "overlong-header":
		ext := append(append([]byte(nil), dg...), 0x80, 201, byte(c.Arg>>8), byte(c.Arg), 0, 0, 0, 1)
		ps, err := rtcp.Unmarshal(ext)
		if err == nil || ps != nil {
			return fmt.Errorf("trailing header claiming %d words with 4 octets present: got %d packets, error %v; want an error and no packets", c.Arg+1, len(ps), err)
		}
		return nil
	}
	// locality: every frame decoded alone is the reference for decoding it in context
	var singles []*decoded
	var firstErr error
	firstBad := -1
	for i, f := range c.Frames {
		d, err := decodeAll(f)
		if err != nil {
			if firstErr == nil {
				firstErr, firstBad = err, i
			}
			singles = append(singles, nil)
			continue
		}
		if len(d.vals) != 1 {
			return fmt.Errorf("frame %d decoded alone gives %d packets", i, len(d.vals))
		}
		singles = append(singles, d)
	}
	whole, werr := decodeAll(dg)
	if firstErr != nil && firstBad < len(c.Valid) && c.Valid[firstBad] {
		return fmt.Errorf("frame %d is a well-formed packet by construction but is rejected when decoded alone: %v\nframe: %s", firstBad, firstErr, hexs(c.Frames[firstBad]))
	}
	if firstErr != nil {
		if werr == nil {
			return fmt.Errorf("frame %d is rejected when decoded alone (%v) but the datagram containing it is accepted (%d packets)\nframe: %s", firstBad, firstErr, len(whole.vals), hexs(c.Frames[firstBad]))
		}
		return nil
	}
	if werr != nil {
		return fmt.Errorf("every frame decodes alone, but the concatenation of the %d frames is rejected: %v\ndatagram: %s", len(c.Frames), werr, hexs(dg))
	}
	if len(whole.vals) != len(c.Frames) {
		return fmt.Errorf("%d frames, %d packets returned", len(c.Frames), len(whole.vals))
	}
	for i := range c.Frames {
		one := &decoded{types: whole.types[i : i+1], vals: whole.vals[i : i+1]}
		if err := sameDecoded(singles[i], one); err != nil {
			return fmt.Errorf("frame %d decodes differently alone and inside the datagram (it depends on bytes outside its own frame): %v\nframe: %s\ndatagram: %s", i, err, hexs(c.Frames[i]), hexs(dg))
		}
	}
	// Unmarshal(a||b) == Unmarshal(a) ++ Unmarshal(b)
	if c.Split > 0 && c.Split < len(c.Frames) {
		var a, b []byte
		for i, f := range c.Frames {
			if i < c.Split {
				a = append(a, f...)
			} else {
				b = append(b, f...)
			}
		}
		da, ea := decodeAll(a)
		db, eb := decodeAll(b)
		if ea != nil || eb != nil {
			return fmt.Errorf("parts of an accepted datagram are rejected: %v / %v", ea, eb)
		}
		cat := &decoded{types: append(append([]string(nil), da.types...), db.types...), vals: append(append([]m.Packet(nil), da.vals...), db.vals...)}
		if err := sameDecoded(whole, cat); err != nil {
			return fmt.Errorf("Unmarshal(a||b) != Unmarshal(a) ++ Unmarshal(b) at frame %d: %v", c.Split, err)
		}
	}
	return nil
})

// ---- malformed frames that are well framed ------------------------------------------------

// c06Bad is a single well-framed frame whose inner count / length fields claim more than the
// frame holds (or, for REMB, whose SSRC count disagrees with the frame length). Such a frame
// is malformed however large it is, so it must be rejected - alone and inside a datagram.
type c06Bad struct {
	Why   string
	Kind  m.Kind
	Frame m.Bytes
}

var subC06Bad = harness.NewSub("c06-inconsistent-frame-rejected", func(c c06Bad, _ harness.Dialect) error {
	if fr, err := m.SplitFrames(c.Frame); err != nil || len(fr) != 1 {
		return fmt.Errorf("GENERATOR BUG: not one well-framed frame: %v", err)
	}
	recv := conv.New(c.Kind)
	if err := recv.Unmarshal(exactCopy(c.Frame)); err == nil {
		return fmt.Errorf("%s accepted a malformed frame (%s) of %d octets through its own decoder\nframe: %s", conv.GoType(c.Kind), c.Why, len(c.Frame), hexs(c.Frame))
	}
	ps, err := rtcp.Unmarshal(exactCopy(c.Frame))
	if err == nil || ps != nil {
		return fmt.Errorf("rtcp.Unmarshal accepted a malformed %s frame (%s) of %d octets: %d packets, error %v\nframe: %s", c.Kind, c.Why, len(c.Frame), len(ps), err, hexs(c.Frame))
	}
	// and inside a datagram, between two valid frames
	pre := []byte{0x81, 206, 0, 2, 0, 0, 0, 1, 0, 0, 0, 2}
	dg := append(append(append([]byte(nil), pre...), c.Frame...), pre...)
	ps, err = rtcp.Unmarshal(dg)
	if err == nil || ps != nil {
		return fmt.Errorf("a datagram containing a malformed %s frame (%s) was accepted: %d packets\nframe: %s", c.Kind, c.Why, len(ps), hexs(c.Frame))
	}
	return nil
})

func genC06Bad(t *rapid.T) c06Bad {
	fix := func(b []byte) []byte {
		w := len(b)/4 - 1
		b[2], b[3] = byte(w>>8), byte(w)
		return b
	}
	switch rapid.IntRange(0, 5).Draw(t, "bad.kind") {
	case 5:
		// XR: the last block is of a type with a fixed structure (or fixed leading fields) but its
		// block length is smaller than that structure: receiver reference time needs 2 words,
		// statistics summary 9, VoIP metrics 8, the RLE and receipt-time blocks 2 before their
		// lists, a DLRR block a multiple of 3
		x := gen.XR(t, 3)
		bt := rapid.SampledFrom([]int{m.XRRRT, m.XRSS, m.XRVoIP, m.XRLossRLE, m.XRDupRLE, m.XRPRT, m.XRDLRR}).Draw(t, "short.bt")
		last := gen.XRBlock(t, bt)
		need := map[int]int{m.XRRRT: 2, m.XRSS: 9, m.XRVoIP: 8, m.XRLossRLE: 2, m.XRDupRLE: 2, m.XRPRT: 2}[bt]
		if bt == m.XRDLRR {
			for len(last.Subs) == 0 || len(last.Subs) > 6 {
				last = gen.XRBlock(t, bt)
			}
		} else {
			last.Chunks, last.Times = nil, nil
		}
		x.Blocks = append(x.Blocks, last)
		e, _ := m.Encode(m.Packet{Kind: m.KXR, XR: x}, nil)
		b := e.B
		pos, lastPos := 8, 8
		for pos+4 <= len(b) {
			lastPos = pos
			pos += 4 * (int(b[pos+2])<<8 | int(b[pos+3]) + 1)
		}
		words := int(b[lastPos+2])<<8 | int(b[lastPos+3])
		var cut int
		if bt == m.XRDLRR {
			cut = rapid.SampledFrom([]int{1, 2}).Draw(t, "short.cut") // leaves a partial sub-block
		} else {
			cut = rapid.IntRange(1, need).Draw(t, "short.cut")
			if cut > words {
				cut = words
			}
		}
		b = b[:len(b)-4*cut]
		nw := words - cut
		b[lastPos+2], b[lastPos+3] = byte(nw>>8), byte(nw)
		return c06Bad{Why: fmt.Sprintf("XR block of type %d with block length %d, shorter than its structure", bt, nw), Kind: m.KXR, Frame: fix(b)}
	case 4:
		// APP: the P bit is set but the padding count (last octet, which counts itself, RFC 3550
		// section 6.4.1) is 0 or larger than the octets that follow the name
		p := gen.PacketOf(t, m.KAPP)
		if len(p.APP.Data) > 64 {
			p.APP.Data = p.APP.Data[:64]
		}
		e, _ := m.Encode(p, &m.EncOpts{APPPadWords: rapid.IntRange(0, 2).Draw(t, "app.padwords")})
		b := e.B
		if b[0]&0x20 == 0 {
			// aligned data and no padding words: give it one word to carry the bad count
			b = fix(append(b, 0, 0, 0, 0))
			b[0] |= 0x20
		}
		room := len(b) - 12
		count := rapid.SampledFrom([]int{0, 0, room + 1, room + 2, 255}).Draw(t, "app.count")
		if count != 0 && count <= room {
			count = 0
		}
		b[len(b)-1] = byte(count)
		return c06Bad{Why: fmt.Sprintf("APP with the P bit set and padding count %d (%d octets after the name)", count, room), Kind: m.KAPP, Frame: b}
	case 0:
		// REMB: Num SSRC disagrees with the frame length (surplus words), at every size class
		p := gen.PacketOf(t, m.KREMB)
		e, _ := m.Encode(p, nil)
		k := rapid.SampledFrom([]int{1, 2, 3, 255, 16383 - len(e.B)/4, 16384 - len(e.B)/4, 16384, 16385, 16384 + 1, 32768, 49152}).Draw(t, "surplus.words")
		if k < 1 {
			k = 1
		}
		if len(e.B)/4+k > 65536 {
			k = 65536 - len(e.B)/4
		}
		b := append(e.B, make([]byte, 4*k)...)
		return c06Bad{Why: fmt.Sprintf("REMB with %d surplus words after its SSRC list", k), Kind: m.KREMB, Frame: fix(b)}
	case 1:
		// XR: the last block's length field runs past the end of the frame
		x := gen.XR(t, 4)
		for len(x.Blocks) == 0 {
			x = gen.XR(t, 4)
		}
		e, _ := m.Encode(m.Packet{Kind: m.KXR, XR: x}, nil)
		b := e.B
		// find the last block header by walking
		pos, last := 8, 8
		for pos+4 <= len(b) {
			last = pos
			pos += 4 * (int(b[pos+2])<<8 | int(b[pos+3]) + 1)
		}
		words := int(b[last+2])<<8 | int(b[last+3])
		extra := rapid.SampledFrom([]int{1, 2, 3, 100, 65535 - words}).Draw(t, "xr.extra")
		if words+extra > 65535 {
			extra = 65535 - words
		}
		if extra < 1 {
			extra = 1
		}
		nw := words + extra
		b[last+2], b[last+3] = byte(nw>>8), byte(nw)
		return c06Bad{Why: fmt.Sprintf("XR block (BT %d) whose length field claims %d more words than the frame holds", b[last], extra), Kind: m.KXR, Frame: b}
	default:
		// CCFB (in the form the library reads): the last report block announces more metric
		// blocks than fit before the report timestamp
		v := gen.CCFB(t)
		for len(v.Blocks) == 0 {
			v = gen.CCFB(t)
		}
		if len(v.Blocks) > 2 {
			v.Blocks = v.Blocks[:2]
		}
		for i := range v.Blocks {
			if len(v.Blocks[i].Metrics) > 40 {
				v.Blocks[i].Metrics = v.Blocks[i].Metrics[:40]
			}
			if len(v.Blocks[i].Metrics) == 1 {
				v.Blocks[i].Metrics = nil
			}
			v.Blocks[i].BeginSeq = uint16(rapid.IntRange(0, 100).Draw(t, "begin"))
		}
		e, _ := m.Encode(m.Packet{Kind: m.KCCFB, CCFB: v}, &m.EncOpts{D: gen.PionDialect})
		b := e.B
		lastBlk := v.Blocks[len(v.Blocks)-1]
		n := len(lastBlk.Metrics)
		size := 8 + 2*(n+n%2)
		off := len(b) - 4 - size // start of the last block
		// pion's convention: field = n-1 (0 for empty); announce at least two more than present
		// the block holds `slots` metric-block slots (n rounded up to even); a field value f means
		// f+1 metric blocks, so every f >= slots (and >= 1) announces more than the block holds -
		// starting with exactly one too many
		slots := n + n%2
		least := slots
		if least < 1 {
			least = 1
		}
		claim := rapid.SampledFrom([]int{least, least + 1, least + 2, n + 100, 16384, 0xFFFF - int(lastBlk.BeginSeq), 0xFFFF}).Draw(t, "ccfb.claim")
		if claim > 0xFFFF-int(lastBlk.BeginSeq) {
			claim = 0xFFFF - int(lastBlk.BeginSeq) // stay clear of the listed seq-wrap rejection: this is about size
		}
		if claim < least {
			claim = least
		}
		b[off+6], b[off+7] = byte(claim>>8), byte(claim)
		return c06Bad{Why: fmt.Sprintf("CCFB report block announcing num_reports field %d with %d metric blocks present", claim, n), Kind: m.KCCFB, Frame: b}
	}
}

// restConsuming: decoders that take "the rest of the buffer" (extensions, trailing timestamp, block lists).
func restConsuming(f []byte) bool {
	if len(f) < 2 {
		return false
	}
	switch f[1] {
	case 200, 201, 202, 204, 207:
		return true
	case 205:
		return f[0]&0x1f == 11 || f[0]&0x1f == 15
	}
	return false
}

// c06Readable adjusts a D-value so that its encoding is one the library is able to read back
// (the listed CCFB findings are about values it cannot: one-metric blocks, blocks spanning the wrap).
func c06Readable(p m.Packet) m.Packet {
	if p.Kind == m.KCCFB {
		if len(p.CCFB.Blocks) > 2 {
			p.CCFB.Blocks = p.CCFB.Blocks[:2]
		}
		for i := range p.CCFB.Blocks {
			b := &p.CCFB.Blocks[i]
			if len(b.Metrics) == 1 || int(b.BeginSeq)+len(b.Metrics) > 65535 {
				b.Metrics = nil
			}
		}
	}
	return p
}

func genC06Frame(t *rapid.T) ([]byte, bool) {
	switch rapid.IntRange(0, 12).Draw(t, "frame.kind") {
	case 11, 12:
		// an RFC-valid encoding the library's own encoder would not produce (padded APP with whole
		// padding words, another TWCC chunking, unnormalised REMB, reserved bits set, unknown XR
		// blocks, BYE reason forms): valid, so it must be accepted, and its canonical re-encoding
		// is often shorter or different - a decoder that measures the frame by anything but the
		// header's length field loses its place in the datagram
		for try := 0; try < 8; try++ {
			c := genC04Case(t, false)
			if c.Inflate > 0 || c.PadWords > 0 || c.Variant == "big-frame" {
				continue // invalid on purpose / listed padding findings / too large for this check
			}
			c.P = c06Readable(c.P)
			if b, err := c.encode(gen.PionDialect); err == nil && len(b) <= 4096 {
				return b, true
			}
		}
		return []byte{0x80, 201, 0, 1, 0, 0, 0, 1}, true
	case 10:
		// a valid encoding cut short by one or two words, length field fixed up: still well
		// framed, but its last element no longer fits - a decoder must not look past the frame
		p := c06Readable(gen.Packet(t))
		e, err := m.Encode(p, &m.EncOpts{D: gen.PionDialect})
		if err != nil {
			panic(err)
		}
		b := e.B
		k := 4 * rapid.IntRange(1, 2).Draw(t, "cut.words")
		if len(b)-k >= 4 {
			b = b[:len(b)-k]
			w := len(b)/4 - 1
			b[2], b[3] = byte(w>>8), byte(w)
		}
		return b, false
	case 0, 1, 2, 3:
		// reference encoding in the form pion's decoders read (so that typed decoders succeed)
		p := c06Readable(gen.Packet(t))
		e, err := m.Encode(p, &m.EncOpts{D: gen.PionDialect})
		if err != nil {
			panic(err)
		}
		return e.B, true
	case 4, 5:
		// the library's own output
		p := c06Readable(gen.Packet(t))
		if b, err := safeMarshal(conv.ToPion(p)); err == nil && len(b) >= 4 && len(b)%4 == 0 {
			return b, true
		}
		return []byte{0x80, 201, 0, 1, 0, 0, 0, 1}, true
	case 6:
		// strict reference encoding (SLI as 206/2, CCFB num_reports = n): may be rejected - then the datagram must be too
		p := gen.Packet(t)
		e, err := m.Encode(p, nil)
		if err != nil {
			panic(err)
		}
		return e.B, false
	case 7:
		return gen.ForcedHeader(t, 10), false
	case 8:
		// a valid encoding with a mutated body (still well framed)
		_, b := gen.SeedEncoding(t)
		if len(b) > 4 {
			off := rapid.IntRange(4, len(b)-1).Draw(t, "mut.off")
			b[off] = rapid.SampledFrom([]byte{0, 1, 0x7F, 0x80, 0xFF}).Draw(t, "mut.v")
		}
		return b, false
	default:
		// raw frame with arbitrary PT/FMT: valid whenever its type has no row in the dispatch table
		words := rapid.IntRange(0, 6).Draw(t, "raw.words")
		b := []byte{0x80 | byte(rapid.IntRange(0, 31).Draw(t, "raw.count")), rapid.Byte().Draw(t, "raw.pt"), 0, byte(words)}
		b = append(b, gen.BytesN(t, 4*words, "raw.body")...)
		return b, m.Dispatch(b[1], b[0]&0x1f, m.Strict) == m.KRAW && !(b[1] == 206 && b[0]&0x1f == 2)
	}
}

// ---- whatever is accepted is well-formed ---------------------------------------------------

// c06Accept is one well-framed frame obtained by damaging a valid encoding of Kind: fields
// overwritten with boundary values, words cut off or appended (length field adjusted), the P bit
// flipped. "If any frame is malformed ... an error and no packets": if the library accepts the
// frame - through the type's own decoder, or through rtcp.Unmarshal when it dispatches there - then the
// frame must be well-formed, i.e. the reference decoder, reading it as a tolerant receiver
// (surplus octets and non-zero padding allowed), must find its counts and lengths consistent.
type c06Accept struct {
	Kind  m.Kind
	Muts  []string
	Frame m.Bytes
}

var subC06Accept = harness.NewSub("c06-accepted-frame-is-well-formed", func(c c06Accept, _ harness.Dialect) error {
	if fr, err := m.SplitFrames(c.Frame); err != nil || len(fr) != 1 {
		return nil // not one well-framed frame: the framing oracle's business
	}
	_, rerr := m.DecodeFrameLenient(c.Frame, c.Kind, gen.PionDialect)
	if rerr == nil {
		return nil
	}
	var perr error
	if p := harness.Guard(func() error { perr = conv.New(c.Kind).Unmarshal(exactCopy(c.Frame)); return nil }); p != nil {
		return fmt.Errorf("%s.Unmarshal panicked: %v\nframe: %s", conv.GoType(c.Kind), p, hexs(c.Frame))
	}
	if perr == nil {
		return fmt.Errorf("%s.Unmarshal accepted a frame that is not a well-formed packet of its type (%v)\nframe: %s\nderived from a valid encoding by: %v", conv.GoType(c.Kind), rerr, hexs(c.Frame), c.Muts)
	}
	if m.Dispatch(c.Frame[1], c.Frame[0]&0x1f, gen.PionDialect) == c.Kind {
		if ps, err := safeUnmarshal(exactCopy(c.Frame)); err == nil {
			return fmt.Errorf("rtcp.Unmarshal accepted a %s frame that is not a well-formed packet of its type (%v): %d packets\nframe: %s", c.Kind, rerr, len(ps), hexs(c.Frame))
		}
	}
	return nil
})

func genC06Accept(t *rapid.T) c06Accept {
	k := rapid.SampledFrom(m.TypedKinds).Draw(t, "accept.kind")
	p := gen.PacketOf(t, k)
	shrinkBig(p)
	e, err := m.Encode(c06Readable(p), &m.EncOpts{D: gen.PionDialect})
	if err != nil {
		panic(err)
	}
	b := e.B
	if len(b) > 1200 {
		// keep the damaged frames small (the big ones are C01's and C04's business): a frame of
		// random words under the type's own header instead
		pt, fm, _ := m.PTFMT(k, gen.PionDialect)
		words := rapid.IntRange(1, 12).Draw(t, "words")
		b = append([]byte{0x80 | fm, pt, 0, byte(words)}, gen.BytesN(t, 4*words, "body")...)
	}
	c := c06Accept{Kind: k}
	fix := func() {
		w := len(b)/4 - 1
		b[2], b[3] = byte(w>>8), byte(w)
	}
	for i := rapid.IntRange(1, 3).Draw(t, "nmut"); i > 0; i-- {
		switch rapid.IntRange(0, 4).Draw(t, "mut") {
		case 0, 1:
			c.Muts = append(c.Muts, "field:"+gen.MutateField(t, b))
		case 2:
			if len(b) > 8 {
				cut := rapid.IntRange(1, (len(b)-4)/4).Draw(t, "cut")
				b = b[:len(b)-4*cut]
				fix()
				c.Muts = append(c.Muts, fmt.Sprintf("cut %d words", cut))
			}
		case 3:
			add := rapid.IntRange(1, 3).Draw(t, "add")
			b = append(b, gen.BytesN(t, 4*add, "added")...)
			fix()
			c.Muts = append(c.Muts, fmt.Sprintf("appended %d words", add))
		case 4:
			b[0] ^= 0x20
			c.Muts = append(c.Muts, "P bit flipped")
		}
	}
	c.Frame = b
	return c
}

// c06LongFrames: datagrams in which one frame carries a length field at or next to a power of
// two up to the largest (0xFFFF: a frame of 262144 octets, which the library's own Marshal
// produces), in first, middle and last position among small frames. The split arithmetic
// `(length+1)*4` is only wrong, if it is, for such frames.
func c06LongFrames() []c06Case {
	pli := m.Bytes{0x81, 206, 0, 2, 0, 0, 0, 1, 0, 0, 0, 2}
	bye := m.Bytes{0x81, 203, 0, 1, 0xde, 0xad, 0xbe, 0xef}
	var out []c06Case
	for _, L := range []int{0x3FFF, 0x4000, 0x7FFF, 0x8000, 0xFFFE, 0xFFFF} {
		for kind := 0; kind < 3; kind++ {
			f := make(m.Bytes, 4*(L+1))
			for i := 12; i < len(f); i++ {
				f[i] = byte(i*13 + 5)
			}
			switch kind {
			case 0: // an unregistered packet type: returned verbatim
				f[0], f[1] = 0x80, 192
			case 1: // a receiver report without report blocks, the rest is its profile extension
				f[0], f[1] = 0x80, 201
			default: // application-defined: source, name, data
				f[0], f[1] = 0x85, 204
			}
			binary.BigEndian.PutUint16(f[2:], uint16(L))
			for pos := 0; pos < 3; pos++ {
				c := c06Case{}
				switch pos {
				case 0:
					c.Frames, c.Split = []m.Bytes{f, bye}, 1
				case 1:
					c.Frames, c.Split = []m.Bytes{pli, f, bye}, 2
				default:
					c.Frames, c.Split = []m.Bytes{pli, bye, f}, 2
				}
				c.Valid = make([]bool, len(c.Frames))
				for i := range c.Valid {
					c.Valid[i] = true
				}
				out = append(out, c)
			}
		}
	}
	return out
}

func TestC06(t *testing.T) {
	defer harness.Uncaught(t)
	if harness.Cfg.Shard == 0 {
		ls := c06LongFrames()
		for _, c := range ls {
			subC06.Check(t, c)
		}
		harness.Eval(subC06.Name+"/long-frames", int64(len(ls)))
		harness.NonTrivialDistinct(int64(len(ls)))
		harness.Class("long-frame-in-datagram", int64(len(ls)))
		harness.Exhaustive(subC06.Name+"/long-frames", "3 frame kinds (unregistered type, receiver report with extension, application-defined) x length field {0x3FFF, 0x4000, 0x7FFF, 0x8000, 0xFFFE, 0xFFFF} x {first, middle, last} among small frames")
	}
	harness.RapidCheck(t, harness.Scale(6000, 60000), 67, func(rt *rapid.T) {
		c := genC06Accept(rt)
		harness.Eval(subC06Accept.Name, 1)
		_, rerr := m.DecodeFrameLenient(c.Frame, c.Kind, gen.PionDialect)
		if rerr != nil {
			// the implication is exercised when the frame is in fact inconsistent
			harness.Class("damaged-inconsistent:"+string(c.Kind), 1)
			h := harness.HashBytes(c.Frame)
			harness.NonTrivialHash(h)
			if len(c.Frame) <= 48 {
				harness.Sample(subC06Accept.Name, h, c)
			}
		} else {
			harness.Class("damaged-still-consistent:"+string(c.Kind), 1)
		}
		subC06Accept.Check(rt, c)
	})
	harness.RapidCheck(t, harness.Scale(1500, 12000), 66, func(rt *rapid.T) {
		c := genC06Bad(rt)
		harness.Eval(subC06Bad.Name, 1)
		harness.Class("inconsistent:"+string(c.Kind), 1)
		h := harness.HashBytes(c.Frame)
		harness.NonTrivialHash(h)
		if len(c.Frame) <= 80 {
			harness.Sample(subC06Bad.Name, h, c)
		}
		subC06Bad.Check(rt, c)
	})
	harness.RapidCheck(t, harness.Scale(5000, 40000), 6, func(rt *rapid.T) {
		n := rapid.IntRange(1, 12).Draw(rt, "nframes")
		var c c06Case
		total := 0
		for i := 0; i < n; i++ {
			f, valid := genC06Frame(rt)
			c.Frames = append(c.Frames, f)
			c.Valid = append(c.Valid, valid)
			total += len(f)
		}
		c.Fault = rapid.SampledFrom([]string{"", "", "", "", "", "", "truncate", "truncate", "surplus", "surplus", "overlong-header", "overlong-header", "empty"}).Draw(rt, "fault")
		switch c.Fault {
		case "truncate":
			c.Arg = rapid.IntRange(1, min(total-1, 64)+0).Draw(rt, "cut")
			if rapid.Bool().Draw(rt, "deepcut") {
				c.Arg = rapid.IntRange(1, total-1).Draw(rt, "cut.deep")
			}
		case "surplus":
			c.Arg = rapid.IntRange(1, 3).Draw(rt, "surplus")
		case "overlong-header":
			c.Arg = rapid.SampledFrom([]int{2, 3, 100, 16383, 16384, 65535}).Draw(rt, "claimed")
		case "":
			if n > 1 {
				c.Split = rapid.IntRange(1, n-1).Draw(rt, "split")
			}
		}
		nt := false
		if c.Fault == "" && n >= 2 {
			kinds := map[[2]byte]bool{}
			followed := false
			for i, f := range c.Frames {
				kinds[[2]byte{f[1], f[0] & 0x1f}] = true
				if restConsuming(f) && i < n-1 {
					followed = true
				}
			}
			nt = len(kinds) >= 2 && followed
		}
		cl := []string{"fault:" + c.Fault}
		if nt {
			cl = append(cl, "rest-consuming-decoder-followed-by-frame")
		}
		if c.Fault == "" {
			var dg []byte
			for _, f := range c.Frames {
				dg = append(dg, f...)
			}
			if _, err := safeUnmarshal(dg); err == nil {
				cl = append(cl, "fault-free:all-frames-accepted")
			} else {
				cl = append(cl, "fault-free:some-frame-rejected")
			}
		}
		harness.Record(subC06.Name, c, nt || c.Fault != "", cl...)
		subC06.Check(rt, c)
	})
}

// fuzzFrameCase turns fuzzer bytes into one well-framed frame addressed to a typed decoder: the
// header decides which (sel picks among the typed kinds when the header names none), the length
// field is repaired.
func fuzzFrameCase(data []byte, sel uint8) (c06Accept, bool) {
	if len(data) < 4 || len(data) > 4096 {
		return c06Accept{}, false
	}
	b := append([]byte(nil), data[:len(data)/4*4]...)
	b[0] = b[0]&0x3F | 0x80
	w := len(b)/4 - 1
	b[2], b[3] = byte(w>>8), byte(w)
	k := m.Dispatch(b[1], b[0]&0x1f, gen.PionDialect)
	if k == m.KRAW || k == "" {
		k = m.TypedKinds[int(sel)%len(m.TypedKinds)]
		pt, fm, hasFmt := m.PTFMT(k, gen.PionDialect)
		b[1] = pt
		if hasFmt {
			b[0] = b[0]&0xE0 | fm
		}
	}
	return c06Accept{Kind: k, Muts: []string{"fuzz"}, Frame: b}, true
}

func fuzzFrameSeeds(f *testing.F) {
	g := rapid.Custom(func(t *rapid.T) []byte { return genC06Accept(t).Frame })
	for i := 0; i < 300; i++ {
		if b := g.Example(i); len(b) <= 1024 {
			f.Add(b, uint8(i))
		}
	}
}

// FuzzC06Frame is the coverage-guided version of the acceptance differential (thorough tier):
// what the library accepts must be well-formed.
func FuzzC06Frame(f *testing.F) {
	fuzzFrameSeeds(f)
	f.Fuzz(func(t *testing.T, data []byte, sel uint8) {
		if c, ok := fuzzFrameCase(data, sel); ok {
			subC06Accept.Check(t, c)
		}
	})
}
