package checks

import (
	"encoding/binary"
	"fmt"
	"os"
	"runtime/metrics"
	"sync/atomic"
	"testing"
	"time"

	"github.com/pion/rtcp"
	"pgregory.net/rapid"

	"verif/conv"
	"verif/gen"
	"verif/harness"
	m "verif/refmodel"
)

// C01: decoding arbitrary bytes never panics, hangs or over-allocates - through all 24 entry points.

type entryPoint struct {
	Name string
	Kind m.Kind // "" for the datagram API and the sub-decoders
	Call func(b []byte) error
}

var entryPoints = []entryPoint{
	{"rtcp.Unmarshal", "", func(b []byte) error { _, err := rtcp.Unmarshal(b); return err }},
	{"SenderReport", m.KSR, func(b []byte) error { return new(rtcp.SenderReport).Unmarshal(b) }},
	{"ReceiverReport", m.KRR, func(b []byte) error { return new(rtcp.ReceiverReport).Unmarshal(b) }},
	{"SourceDescription", m.KSDES, func(b []byte) error { return new(rtcp.SourceDescription).Unmarshal(b) }},
	{"Goodbye", m.KBYE, func(b []byte) error { return new(rtcp.Goodbye).Unmarshal(b) }},
	{"ApplicationDefined", m.KAPP, func(b []byte) error { return new(rtcp.ApplicationDefined).Unmarshal(b) }},
	{"TransportLayerNack", m.KNACK, func(b []byte) error { return new(rtcp.TransportLayerNack).Unmarshal(b) }},
	{"RapidResynchronizationRequest", m.KRRR, func(b []byte) error { return new(rtcp.RapidResynchronizationRequest).Unmarshal(b) }},
	{"TransportLayerCC", m.KTWCC, func(b []byte) error { return new(rtcp.TransportLayerCC).Unmarshal(b) }},
	{"CCFeedbackReport", m.KCCFB, func(b []byte) error { return new(rtcp.CCFeedbackReport).Unmarshal(b) }},
	{"PictureLossIndication", m.KPLI, func(b []byte) error { return new(rtcp.PictureLossIndication).Unmarshal(b) }},
	{"SliceLossIndication", m.KSLI, func(b []byte) error { return new(rtcp.SliceLossIndication).Unmarshal(b) }},
	{"FullIntraRequest", m.KFIR, func(b []byte) error { return new(rtcp.FullIntraRequest).Unmarshal(b) }},
	{"ReceiverEstimatedMaximumBitrate", m.KREMB, func(b []byte) error { return new(rtcp.ReceiverEstimatedMaximumBitrate).Unmarshal(b) }},
	{"ExtendedReport", m.KXR, func(b []byte) error { return new(rtcp.ExtendedReport).Unmarshal(b) }},
	{"RawPacket", m.KRAW, func(b []byte) error { return new(rtcp.RawPacket).Unmarshal(b) }},
	{"CompoundPacket", m.KCOMPOUND, func(b []byte) error { return new(rtcp.CompoundPacket).Unmarshal(b) }},
	{"Header", "", func(b []byte) error { return new(rtcp.Header).Unmarshal(b) }},
	{"ReceptionReport", "", func(b []byte) error { return new(rtcp.ReceptionReport).Unmarshal(b) }},
	{"SourceDescriptionChunk", "", func(b []byte) error { return new(rtcp.SourceDescriptionChunk).Unmarshal(b) }},
	{"SourceDescriptionItem", "", func(b []byte) error { return new(rtcp.SourceDescriptionItem).Unmarshal(b) }},
	{"RunLengthChunk", "", func(b []byte) error { return new(rtcp.RunLengthChunk).Unmarshal(b) }},
	{"StatusVectorChunk", "", func(b []byte) error { return new(rtcp.StatusVectorChunk).Unmarshal(b) }},
	{"RecvDelta", "", func(b []byte) error { return new(rtcp.RecvDelta).Unmarshal(b) }},
}

var epIndex = func() map[string]int {
	x := map[string]int{}
	for i, e := range entryPoints {
		x[e.Name] = i
	}
	return x
}()

type c01Case struct {
	EP string
	B  m.Bytes
}

const (
	c01FixedBytes  = 8 << 20 // "a fixed few MiB"
	c01PerOctet    = 128     // "a small multiple of the input size"
	c01TimeLimit   = 5 * time.Second
	c01HeapCeiling = 2 << 30
)

var allocSample = []metrics.Sample{{Name: "/gc/heap/allocs:bytes"}}

func heapAllocated() uint64 {
	metrics.Read(allocSample)
	return allocSample[0].Value.Uint64()
}

// watchdog state: the case currently being decoded, so that a hang or a memory explosion
// (which can neither be recovered nor killed in-process) still leaves a replay file behind.
var (
	c01Current  atomic.Pointer[c01Case]
	c01Started  atomic.Int64
	c01Watchdog atomic.Bool
)

func startC01Watchdog() {
	if !c01Watchdog.CompareAndSwap(false, true) {
		return
	}
	go func() {
		live := []metrics.Sample{{Name: "/memory/classes/heap/objects:bytes"}}
		for {
			time.Sleep(50 * time.Millisecond)
			cur := c01Current.Load()
			if cur == nil {
				continue
			}
			metrics.Read(live)
			heap := live[0].Value.Uint64()
			elapsed := time.Duration(time.Now().UnixNano() - c01Started.Load())
			limit := c01TimeLimit
			if harness.Cfg.Mode == "replay" {
				limit = 20 * time.Second
			}
			if heap > c01HeapCeiling || elapsed > limit {
				msg := fmt.Sprintf("%s on %d octets: still running after %v with %d MiB of live heap (limits: %v, %d MiB) - hang or memory explosion", cur.EP, len(cur.B), elapsed.Round(time.Millisecond), heap>>20, limit, uint64(c01HeapCeiling)>>20)
				harness.WriteFail(subC01Name, *cur, msg)
				harness.Flush()
				fmt.Printf("WATCHDOG: %s\n", msg)
				os.Exit(1)
			}
		}
	}()
}

func c01Run(c c01Case) (allocated uint64, dur time.Duration, err error, perr error) {
	ep := entryPoints[epIndex[c.EP]]
	in := exactCopy(c.B) // capacity == length: reading past the end panics instead of seeing spare capacity
	cc := c
	c01Started.Store(time.Now().UnixNano())
	c01Current.Store(&cc)
	a0 := heapAllocated()
	t0 := time.Now()
	perr = harness.Guard(func() error { err = ep.Call(in); return nil })
	dur = time.Since(t0)
	a1 := heapAllocated()
	c01Current.Store(nil)
	return a1 - a0, dur, err, perr
}

const subC01Name = "c01-decode-robust"

var subC01 = harness.NewSub(subC01Name, func(c c01Case, _ harness.Dialect) error {
	if _, ok := epIndex[c.EP]; !ok {
		return fmt.Errorf("unknown entry point %q", c.EP)
	}
	startC01Watchdog()
	alloc, dur, _, perr := c01Run(c)
	if perr != nil {
		return fmt.Errorf("%s on %d octets %s: %v", c.EP, len(c.B), hexs(c.B), perr)
	}
	bound := uint64(c01FixedBytes + c01PerOctet*len(c.B))
	if alloc > bound {
		// confirm (the counter is process-wide; exclude interference)
		alloc2, _, _, _ := c01Run(c)
		if alloc2 > bound {
			return fmt.Errorf("%s on %d octets allocated %d bytes (bound %d = 8 MiB + 128 x len)\ninput: %s", c.EP, len(c.B), alloc2, bound, hexs(c.B))
		}
	}
	if dur > c01TimeLimit {
		return fmt.Errorf("%s on %d octets took %v (bound %v)\ninput: %s", c.EP, len(c.B), dur, c01TimeLimit, hexs(c.B))
	}
	return nil
})

// c01Reuse: a decoder must not panic (or hang, or over-allocate) whatever its receiver held
// before: A is decoded first (outcome ignored), then B into the same receiver.
type c01Reuse struct {
	Kind m.Kind `json:",omitempty"`
	Sub  string `json:",omitempty"` // an exported sub-decoder instead of a packet type
	A, B m.Bytes
}

// c01SubDecoders: the sub-structure decoders, each bound to ONE receiver that is reused.
func c01SubDecoder(name string) func(b []byte) error {
	switch name {
	case "Header":
		r := new(rtcp.Header)
		return r.Unmarshal
	case "ReceptionReport":
		r := new(rtcp.ReceptionReport)
		return r.Unmarshal
	case "SourceDescriptionChunk":
		r := new(rtcp.SourceDescriptionChunk)
		return r.Unmarshal
	case "SourceDescriptionItem":
		r := new(rtcp.SourceDescriptionItem)
		return r.Unmarshal
	case "RunLengthChunk":
		r := new(rtcp.RunLengthChunk)
		return r.Unmarshal
	case "StatusVectorChunk":
		r := new(rtcp.StatusVectorChunk)
		return r.Unmarshal
	case "RecvDelta":
		r := new(rtcp.RecvDelta)
		return r.Unmarshal
	}
	return nil
}

var c01SubNames = []string{"Header", "ReceptionReport", "SourceDescriptionChunk", "SourceDescriptionItem", "RunLengthChunk", "StatusVectorChunk", "RecvDelta"}

var subC01Reuse = harness.NewSub("c01-decode-into-used-receiver-robust", func(c c01Reuse, _ harness.Dialect) error {
	var dec func(b []byte) error
	name := c.Sub
	if c.Sub != "" {
		dec = c01SubDecoder(c.Sub)
		if dec == nil {
			return fmt.Errorf("unknown sub-decoder %q", c.Sub)
		}
	} else {
		recv := conv.New(c.Kind)
		dec = recv.Unmarshal
		name = conv.GoType(c.Kind)
	}
	_ = harness.Guard(func() error { _ = dec(exactCopy(c.A)); return nil })
	a0 := heapAllocated()
	perr := harness.Guard(func() error { _ = dec(exactCopy(c.B)); return nil })
	a1 := heapAllocated()
	if perr != nil {
		return fmt.Errorf("%s.Unmarshal(B) into a receiver that decoded A before: %v\nA: %s\nB: %s", name, perr, hexs(c.A), hexs(c.B))
	}
	if bound := uint64(c01FixedBytes + c01PerOctet*len(c.B)); a1-a0 > bound {
		return fmt.Errorf("%s.Unmarshal(B) into a used receiver allocated %d bytes (bound %d)", name, a1-a0, bound)
	}
	return nil
})

// gateOf classifies how far an input gets: "gate" (rejected by length/version/type gate),
// decided structurally from the bytes and the entry point, independent of pion.
func passesGate(ep entryPoint, b []byte) bool {
	switch ep.Name {
	case "Header", "RawPacket":
		return len(b) >= 4 && b[0]>>6 == 2
	case "ReceptionReport":
		return len(b) >= 24
	case "SourceDescriptionChunk":
		return len(b) >= 5
	case "SourceDescriptionItem":
		return len(b) >= 2
	case "RunLengthChunk", "StatusVectorChunk":
		return len(b) == 2
	case "RecvDelta":
		return len(b) == 1 || len(b) == 2
	}
	if len(b) < 4 || b[0]>>6 != 2 {
		return false
	}
	if ep.Kind == "" || ep.Kind == m.KCOMPOUND {
		return true
	}
	k := m.Dispatch(b[1], b[0]&0x1f, m.Strict)
	if ep.Kind == m.KSLI {
		return b[0]&0x1f == 2 && (b[1] == 205 || b[1] == 206)
	}
	return k == ep.Kind
}

func c01Classify(ep entryPoint, b []byte, err error) string {
	switch {
	case !passesGate(ep, b):
		return "gate-reject"
	case err != nil:
		return "body-reject"
	}
	return "accepted"
}

// c01Eval evaluates one (entry point, input) pair with full bookkeeping.
func c01Eval(t harness.TB, ep entryPoint, kind string, b []byte) {
	c := c01Case{EP: ep.Name, B: b}
	gate := passesGate(ep, b)
	harness.Eval(subC01.Name, 1)
	harness.Class("gen:"+kind, 1)
	if gate {
		h := harness.HashBytes(append([]byte(ep.Name+"|"), b...))
		harness.NonTrivialHash(h)
		if len(b) <= 200 {
			harness.Sample(subC01.Name, h, map[string]interface{}{"EP": ep.Name, "B": m.Bytes(b), "gen": kind})
		}
	}
	subC01.Check(t, c)
}

var ptOf = map[m.Kind][2]byte{
	m.KSR: {200, 1}, m.KRR: {201, 1}, m.KSDES: {202, 1}, m.KBYE: {203, 1}, m.KAPP: {204, 0}, m.KNACK: {205, 1}, m.KRRR: {205, 5}, m.KTWCC: {205, 15},
	m.KCCFB: {205, 11}, m.KPLI: {206, 1}, m.KSLI: {205, 2}, m.KFIR: {206, 4}, m.KREMB: {206, 15}, m.KXR: {207, 0}, m.KRAW: {192, 0}, m.KCOMPOUND: {201, 0},
}

// c01Sweep is the bounded-exhaustive header/length sweep for one entry point.
func c01Sweep(t *testing.T, ep entryPoint, maxLen int) int64 {
	own, ok := ptOf[ep.Kind]
	if !ok {
		own = [2]byte{200, 0}
	}
	firstOctets := []byte{}
	for cnt := 0; cnt < 32; cnt++ {
		firstOctets = append(firstOctets, 0x80|byte(cnt), 0xA0|byte(cnt))
	}
	firstOctets = append(firstOctets, 0x00, 0x40, 0xC0, 0x1F, 0x7F, 0xFF)
	pts := []byte{own[0], 206, 205, 0}
	fills := []func(i int) byte{
		func(int) byte { return 0x00 }, func(int) byte { return 0xFF }, func(int) byte { return 0x01 }, func(int) byte { return 0x80 }, func(i int) byte { return byte(i) },
	}
	var n int64
	buf := make([]byte, maxLen)
	for total := 0; total <= maxLen; total++ {
		lens := []int{0, 1, 2, 3, 4, 5, total/4 - 1, total / 4, total/4 - 2, 16383, 16384, 16385, 65535}
		for _, fo := range firstOctets {
			for _, pt := range pts {
				for _, lf := range lens {
					if lf < 0 {
						continue
					}
					for fi, fill := range fills {
						b := buf[:total:total]
						for i := range b {
							b[i] = fill(i)
						}
						if total > 0 {
							b[0] = fo
						}
						if total > 1 {
							b[1] = pt
						}
						if total > 3 {
							b[2], b[3] = byte(lf>>8), byte(lf)
						}
						if ep.Kind == m.KREMB && total >= 20 && fi%2 == 0 {
							copy(b[8:], []byte{0, 0, 0, 0, 'R', 'E', 'M', 'B'})
						}
						n++
						var err error
						if perr := harness.Guard(func() error { err = ep.Call(b); return nil }); perr != nil {
							subC01.Check(t, c01Case{EP: ep.Name, B: append([]byte(nil), b...)})
							t.Fatalf("sweep and oracle disagree: %v", perr)
						}
						_ = err
					}
				}
			}
		}
	}
	return n
}

// c01SweepSeeds: one or two minimal valid packets per type, in the form the decoders read.
func c01SweepSeeds() [][]byte {
	ps := []m.Packet{
		{Kind: m.KSR, SR: &m.SR{SSRC: 1, Reports: []m.RBlock{{SSRC: 2}}}},
		{Kind: m.KRR, RR: &m.RR{SSRC: 1, Reports: []m.RBlock{{SSRC: 2}}, Ext: []byte{1, 2, 3, 4}}},
		{Kind: m.KSDES, SDES: &m.SDES{Chunks: []m.SDESChunk{{Source: 1, Items: []m.SDESItem{{Type: 1, Text: []byte("ab")}}}}}},
		{Kind: m.KBYE, BYE: &m.BYE{Sources: []uint32{1}, Reason: []byte("bye")}},
		{Kind: m.KAPP, APP: &m.APP{Subtype: 1, SSRC: 1, Name: []byte("name"), Data: []byte{1, 2, 3}}},
		{Kind: m.KNACK, NACK: &m.NACK{Sender: 1, Media: 2, Pairs: []m.NackPair{{PID: 3, BLP: 4}}}},
		{Kind: m.KRRR, RRR: &m.FB{Sender: 1, Media: 2}},
		{Kind: m.KPLI, PLI: &m.FB{Sender: 1, Media: 2}},
		{Kind: m.KSLI, SLI: &m.SLI{Sender: 1, Media: 2, Entries: []m.SLIEntry{{First: 1, Number: 2, Picture: 3}}}},
		{Kind: m.KFIR, FIR: &m.FIR{Sender: 1, Media: 2, Entries: []m.FIREntry{{SSRC: 3, Seq: 4}}}},
		{Kind: m.KREMB, REMB: &m.REMB{Sender: 1, Bitrate: 1000, SSRCs: []uint32{2}}},
		{Kind: m.KTWCC, TWCC: &m.TWCC{HdrLength: 5, Sender: 1, Media: 2, BaseSeq: 3, StatusCount: 2, RefTime: 4, FbCount: 5,
			Chunks: []m.TWCCChunk{{Symbol: 1, Run: 2}}, Deltas: []m.TWCCDelta{{Micros: 250}, {Micros: 500}}}},
		{Kind: m.KTWCC, TWCC: &m.TWCC{HdrLength: 5, Sender: 1, Media: 2, StatusCount: 7, Chunks: []m.TWCCChunk{{Vector: true, TwoBit: true, Symbols: []uint16{1, 0, 2, 0, 0, 0, 0}}}, Deltas: []m.TWCCDelta{{Micros: 250}, {Large: true, Micros: -250}}}},
		{Kind: m.KCCFB, CCFB: &m.CCFB{Sender: 1, Blocks: []m.CCFBBlock{{SSRC: 2}}, Timestamp: 3}},
		{Kind: m.KCCFB, CCFB: &m.CCFB{Sender: 1, Blocks: []m.CCFBBlock{{SSRC: 2, BeginSeq: 0, Metrics: []m.CCFBMetric{{Received: true, ATO: 1}, {}}}}, Timestamp: 3}},
		{Kind: m.KXR, XR: &m.XR{Sender: 1, Blocks: []m.XRBlock{{BT: m.XRLossRLE, SSRC: 2, Chunks: []uint16{0x8001, 0}}, {BT: m.XRDLRR, Subs: []m.DLRRSub{{SSRC: 3}}}}}},
		{Kind: m.KXR, XR: &m.XR{Sender: 1, Blocks: []m.XRBlock{{BT: 200, TypeSpecific: 1, Body: []byte{1, 2, 3, 4}}, {BT: m.XRRRT, NTP: 5}}}},
		{Kind: m.KRAW, RAW: []byte{0x80, 192, 0, 1, 1, 2, 3, 4}},
	}
	var out [][]byte
	for _, p := range ps {
		if p.Kind == m.KTWCC {
			gen.FixTWCCHeader(p.TWCC, false)
		}
		e, err := m.Encode(p, &m.EncOpts{D: gen.PionDialect})
		if err != nil {
			panic(err)
		}
		out = append(out, e.B)
	}
	return out
}

// c01FieldSweep: every 16-bit field position and every octet of a minimal packet of every type
// is set to every hostile constant; the mutated frame is decoded alone and as a datagram made
// of many copies of it (allocation out of proportion to a small frame must show up there).
func c01FieldSweep(t *testing.T) int64 {
	h16 := []uint16{0, 1, 2, 0x1FFF, 0x2000, 0x3FFF, 0x4000, 0x7FFE, 0x7FFF, 0x8000, 0x8001, 0xBFFF, 0xC000, 0xFFF0, 0xFFFE, 0xFFFF}
	h8 := []byte{0, 1, 3, 0x1F, 0x3F, 0x40, 0x7F, 0x80, 0xBF, 0xC0, 0xFE, 0xFF}
	var n int64
	seeds := c01SweepSeeds()
	for si, seed := range seeds {
		if si%harness.Cfg.NShards != harness.Cfg.Shard {
			continue
		}
		var variants [][]byte
		for off := 2; off+1 < len(seed); off += 2 {
			for _, v := range h16 {
				f := append([]byte(nil), seed...)
				f[off], f[off+1] = byte(v>>8), byte(v)
				variants = append(variants, f)
			}
		}
		for off := 0; off < len(seed); off++ {
			for _, v := range h8 {
				f := append([]byte(nil), seed...)
				f[off] = v
				variants = append(variants, f)
			}
		}
		for _, f := range variants {
			for _, total := range []int{len(f), 1500, 20000} {
				dg := f
				if total > len(f) {
					dg = make([]byte, 0, total)
					for len(dg)+len(f) <= total {
						dg = append(dg, f...)
					}
				}
				subC01.Check(t, c01Case{EP: "rtcp.Unmarshal", B: dg})
				n++
			}
			// the decoder its header selects, called directly
			if len(f) >= 2 {
				k := m.Dispatch(f[1], f[0]&0x1f, m.Strict)
				if f[0]&0x1f == 2 && (f[1] == 205 || f[1] == 206) {
					k = m.KSLI
				}
				for _, ep := range entryPoints[1:17] {
					if ep.Kind == k {
						subC01.Check(t, c01Case{EP: ep.Name, B: f})
						n++
					}
				}
			}
		}
	}
	return n
}

func TestC01(t *testing.T) {
	defer harness.Uncaught(t)
	startC01Watchdog()
	{
		n := c01FieldSweep(t)
		harness.Eval(subC01Name+"/field-sweep", n)
		harness.NonTrivialDistinct(n)
		harness.Exhaustive(subC01Name+"/field-sweep", "18 minimal packets (all types) x every 16-bit position x 16 constants + every octet x 12 constants, each decoded alone, as 1500- and 20000-octet datagrams of repeated copies, and by its own decoder")
	}
	// (1) bounded-exhaustive sweep, entry points sharded over processes
	maxLen := 40
	if harness.Thorough() {
		maxLen = 72
	}
	for i, ep := range entryPoints {
		if i%harness.Cfg.NShards != harness.Cfg.Shard {
			continue
		}
		cc := c01Case{EP: ep.Name, B: []byte("sweep")}
		c01Started.Store(time.Now().UnixNano() + int64(10*time.Minute)) // the sweep as a whole is not one call
		c01Current.Store(&cc)
		a0 := heapAllocated()
		n := c01Sweep(t, ep, maxLen)
		a1 := heapAllocated()
		c01Current.Store(nil)
		if per := (a1 - a0) / uint64(n+1); per > 64<<10 {
			t.Fatalf("sweep of %s allocated %d bytes per call on inputs <= %d octets", ep.Name, per, maxLen)
		}
		harness.Eval(subC01.Name+"/sweep", n)
		harness.NonTrivialDistinct(n / 2) // at least the version-2 half passes the first gate; distinct by construction
		harness.Exhaustive(subC01.Name+"/sweep", fmt.Sprintf("every entry point x total length 0..%d x 70 first octets x 4 packet types x 13 length-field values x 5 fill patterns", maxLen))
		harness.Class("sweep:"+ep.Name, n)
	}

	// (1a) 16-bit count and length fields at and near their extremes WITH the announced content
	// really present (the field sweep above sets such fields on minimal packets, which every
	// decoder refuses at its first length check)
	if harness.Cfg.Shard == 0 {
		n := c01SaturatedCounts(t)
		harness.Exhaustive(subC01Name+"/saturated-counts", fmt.Sprintf("%d frames: CCFB num_reports in {0x3FFF, 0x4000, 0x7FFF, 0x8000, 0xFFFE, 0xFFFF} x {field, field+1, field+2} metric blocks present x 4 begin_seq x 3 fills; TWCC status count in the same set x 10 chunk words x {1, 8, 36, 200, 2000} identical chunks x {without, with} the announced deltas; XR blocks of every variable-length kind with block length 16382..16385, 32767, 32768, 49152, 65533 and their content, alone and between neighbours - by rtcp.Unmarshal and by the type's decoder", n))
	}

	// (1b) decoders called on a receiver that was used before
	testC01Reuse(t)
	if harness.Cfg.Shard == 0 {
		testC01SubReuse(t)
	}

	// (2) generated hostile inputs
	harness.RapidCheck(t, harness.Scale(5000, 40000), 1, func(rt *rapid.T) {
		big := rapid.IntRange(0, 39).Draw(rt, "big?") == 0
		kind, b := gen.HostileBytes(rt, big)
		// the datagram entry point
		c01Eval(rt, entryPoints[0], kind, b)
		// the decoder its header selects (if any), called directly
		if len(b) >= 2 {
			k := m.Dispatch(b[1], b[0]&0x1f, m.Strict)
			if b[0]&0x1f == 2 && (b[1] == 205 || b[1] == 206) {
				k = m.KSLI
			}
			for _, ep := range entryPoints[1:17] {
				if ep.Kind == k {
					c01Eval(rt, ep, kind, b)
					harness.Class("direct:"+ep.Name+":"+c01ClassifyRun(ep, b), 1)
				}
			}
		}
		// one other packet decoder and one sub-decoder on a drawn window
		other := entryPoints[rapid.IntRange(1, 16).Draw(rt, "other")]
		c01Eval(rt, other, kind, b)
		sub := entryPoints[rapid.IntRange(17, 23).Draw(rt, "sub")]
		w := b
		if len(b) > 0 {
			lo := rapid.IntRange(0, len(b)-1).Draw(rt, "win.lo")
			n := rapid.SampledFrom([]int{0, 1, 2, 3, 4, 5, 23, 24, 25, 64, len(b)}).Draw(rt, "win.n")
			if lo+n > len(b) {
				n = len(b) - lo
			}
			w = b[lo : lo+n]
		}
		c01Eval(rt, sub, kind, w)
	})
}

// ccfbFrame: an RFC 8888 packet with one report block whose num_reports field is `field` and
// which holds nMetrics metric blocks of value fill.
func ccfbFrame(begin, field uint16, nMetrics int, fill uint16) []byte {
	body := 2 * nMetrics
	if nMetrics%2 == 1 {
		body += 2
	}
	b := make([]byte, 8+8+body+4)
	b[0], b[1] = 0x80|11, 205
	binary.BigEndian.PutUint16(b[2:], uint16(len(b)/4-1))
	binary.BigEndian.PutUint32(b[4:], 0x01020304)
	binary.BigEndian.PutUint32(b[8:], 0x05060708)
	binary.BigEndian.PutUint16(b[12:], begin)
	binary.BigEndian.PutUint16(b[14:], field)
	for i := 0; i < nMetrics; i++ {
		binary.BigEndian.PutUint16(b[16+2*i:], fill)
	}
	binary.BigEndian.PutUint32(b[len(b)-4:], 0x0a0b0c0d)
	return b
}

// chunkDeltaOctets: the receive-delta octets one TWCC status chunk announces.
func chunkDeltaOctets(w uint16) int {
	per := func(sym uint16) int {
		switch sym {
		case 1:
			return 1
		case 2:
			return 2
		}
		return 0
	}
	if w&0x8000 == 0 {
		return int(w&0x1FFF) * per(w>>13&3)
	}
	n := 0
	if w&0x4000 == 0 {
		for i := 0; i < 14; i++ {
			n += per(w >> i & 1)
		}
		return n
	}
	for i := 0; i < 7; i++ {
		n += per(w >> (2 * i) & 3)
	}
	return n
}

func c01SaturatedCounts(t *testing.T) int64 {
	var n int64
	un, ccfb, xr := entryPoints[0], entryPoints[epIndex["CCFeedbackReport"]], entryPoints[epIndex["ExtendedReport"]]
	for _, field := range []uint16{0x3FFF, 0x4000, 0x7FFF, 0x8000, 0xFFFE, 0xFFFF} {
		for extra := 0; extra <= 2; extra++ {
			for _, begin := range []uint16{0, 1, uint16(65535 - int(field)), uint16(65536 - int(field))} {
				for _, fill := range []uint16{0, 0x8001, 0xFFFF} {
					b := ccfbFrame(begin, field, int(field)+extra, fill)
					c01Eval(t, un, "saturated-count:ccfb", b)
					c01Eval(t, ccfb, "saturated-count:ccfb", b)
					n += 2
				}
			}
		}
	}
	// TWCC: a status count at or near its extremes, followed by many chunks of ONE kind (so that
	// nothing but the count ends the chunk loop early), with and without the receive deltas those
	// chunks announce: whatever a decoder reserves per chunk from the count is multiplied here
	tw := entryPoints[epIndex["TransportLayerCC"]]
	for _, count := range []uint16{0x3FFF, 0x4000, 0x7FFF, 0x8000, 0xFFFE, 0xFFFF} {
		for _, word := range []uint16{0xBFFF, 0x8000, 0xD555, 0xEAAA, 0xC000, 0x2001, 0x3FFF, 0x5FFF, 0x0001, 0x2000} {
			for _, k := range []int{1, 8, 36, 200, 2000} {
				for _, withDeltas := range []bool{false, true} {
					nd := 0
					if withDeltas {
						nd = chunkDeltaOctets(word) * k
						if nd > 140000 {
							nd = 140000
						}
					}
					sz := 20 + 2*k + nd
					sz += (4 - sz%4) % 4
					b := make([]byte, sz)
					b[0], b[1] = 0x80|15, 205
					binary.BigEndian.PutUint16(b[2:], uint16(sz/4-1))
					binary.BigEndian.PutUint32(b[4:], 1)
					binary.BigEndian.PutUint32(b[8:], 2)
					binary.BigEndian.PutUint16(b[12:], 100)
					binary.BigEndian.PutUint16(b[14:], count)
					b[16], b[17], b[18], b[19] = 0, 0, 9, 1
					for i := 0; i < k; i++ {
						binary.BigEndian.PutUint16(b[20+2*i:], word)
					}
					for i := 20 + 2*k; i < 20+2*k+nd; i++ {
						b[i] = byte(i)&0x3f + 1
					}
					c01Eval(t, un, "saturated-count:twcc", b)
					c01Eval(t, tw, "saturated-count:twcc", b)
					n += 2
				}
			}
		}
	}
	for _, c := range c15LargeBlocks() {
		e, err := m.Encode(m.Packet{Kind: m.KXR, XR: &c.X}, nil)
		if err != nil {
			t.Fatalf("reference encoder refuses a large XR value: %v", err)
		}
		c01Eval(t, un, "saturated-count:xr-block", e.B)
		c01Eval(t, xr, "saturated-count:xr-block", e.B)
		n += 2
	}
	return n
}

func testC01Reuse(t *testing.T) {
	harness.RapidCheck(t, harness.Scale(4000, 30000), 12, func(rt *rapid.T) {
		k := rapid.SampledFrom(append(append([]m.Kind(nil), m.TypedKinds...), m.KRAW, m.KCOMPOUND)).Draw(rt, "reuse.kind")
		_, a := gen.HostileBytes(rt, false)
		_, b := gen.HostileBytes(rt, false)
		if rapid.Bool().Draw(rt, "same.kind") && k != m.KCOMPOUND {
			ea, _ := m.Encode(c06Readable(gen.PacketOf(rt, k)), &m.EncOpts{D: gen.PionDialect})
			eb, _ := m.Encode(c06Readable(gen.PacketOf(rt, k)), &m.EncOpts{D: gen.PionDialect})
			a, b = ea.B, eb.B
			if rapid.Bool().Draw(rt, "cut.b") && len(b) > 8 {
				b = b[:rapid.IntRange(4, len(b)-1).Draw(rt, "cut")]
			}
		}
		if len(a) > 8192 {
			a = a[:8192]
		}
		if len(b) > 8192 {
			b = b[:8192]
		}
		c := c01Reuse{Kind: k, A: a, B: b}
		harness.Record(subC01Reuse.Name, c, true, "reuse:"+string(k))
		subC01Reuse.Check(rt, c)
	})
}

// testC01SubReuse: every ordered pair of short inputs into one receiver of each sub-decoder
// (the chunk decoders take exactly two octets: all pairs of a representative set of words).
func testC01SubReuse(t *testing.T) {
	words := []uint16{0x0000, 0x0001, 0x1FFF, 0x2001, 0x4005, 0x6003, 0x8000, 0xA55A, 0xBFFF, 0xC000, 0xE41B, 0xFFFF}
	var n int64
	for _, name := range c01SubNames {
		var inputs [][]byte
		for _, w := range words {
			inputs = append(inputs, []byte{byte(w >> 8), byte(w)})
		}
		inputs = append(inputs, nil, []byte{0x80}, []byte{0x81, 200, 0, 1}, []byte{1, 2, 3, 4, 1, 3, 'a', 'b', 'c', 0, 0, 0}, []byte{1, 2, 3, 4, 0},
			append([]byte{9, 9, 9, 9, 0xAA, 1, 2, 3}, make([]byte, 16)...), []byte{2, 5, 'h', 'e', 'l', 'l', 'o'}, []byte{1, 0})
		for _, a := range inputs {
			for _, b := range inputs {
				subC01Reuse.Check(t, c01Reuse{Sub: name, A: a, B: b})
				n++
			}
		}
	}
	harness.Eval(subC01Reuse.Name+"/sub-decoders", n)
	harness.NonTrivialDistinct(n)
	harness.Exhaustive(subC01Reuse.Name+"/sub-decoders", "7 exported sub-decoders x all ordered pairs of 20 representative inputs decoded into one receiver")
}

func c01ClassifyRun(ep entryPoint, b []byte) string {
	var err error
	if perr := harness.Guard(func() error { err = ep.Call(append([]byte(nil), b...)); return nil }); perr != nil {
		return "panic"
	}
	return c01Classify(ep, b, err)
}

// FuzzC01Decode is the coverage-guided target (thorough tier): sel picks the entry point.
func FuzzC01Decode(f *testing.F) {
	for _, s := range fuzzSeeds() {
		for _, sel := range []uint8{0, 8, 9, 14} {
			f.Add(s, sel)
		}
	}
	f.Fuzz(func(t *testing.T, data []byte, sel uint8) {
		ep := entryPoints[int(sel)%len(entryPoints)]
		subC01.Check(t, c01Case{EP: ep.Name, B: data})
	})
}
