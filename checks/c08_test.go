package checks

import (
	"errors"
	"fmt"
	"math"
	"testing"

	"github.com/pion/rtcp"
	"pgregory.net/rapid"

	"verif/conv"
	"verif/gen"
	"verif/harness"
	m "verif/refmodel"
)

// C08: Marshal never silently truncates: out-of-range values are errors.

type c08Case struct {
	Row  string // the probed limit
	Side string // below | at | above | far
	// Enumerated: the row is in the statement's list (values at the limit must be accepted,
	// values above must be rejected); otherwise only "success implies the whole value is on the wire".
	Enumerated bool
	P          m.Packet
}

// expectC08 is what the reference decoder must recover from the emitted bytes.
func expectC08(p m.Packet, d m.Dialect) m.Packet {
	switch p.Kind {
	case m.KRR, m.KSR:
		return expectC04(p, c04Case{}, d)
	case m.KREMB:
		v := *p.REMB
		e, mt, _ := m.REMBEncode(v.Bitrate)
		v.Bitrate = m.REMBValue(e, mt, d)
		return m.Packet{Kind: m.KREMB, REMB: &v}
	case m.KTWCC:
		// a status vector chunk always carries 14 / 7 symbols: a shorter list means trailing zeros
		v := *p.TWCC
		v.Chunks = append([]m.TWCCChunk(nil), v.Chunks...)
		for i, c := range v.Chunks {
			if c.Vector {
				full := 14
				if c.TwoBit {
					full = 7
				}
				if len(c.Symbols) < full {
					s := make([]uint16, full)
					copy(s, c.Symbols)
					v.Chunks[i].Symbols = s
				}
			}
		}
		return m.Packet{Kind: m.KTWCC, TWCC: &v}
	}
	return p
}

var subC08 = harness.NewSub("c08-no-silent-truncation", func(c c08Case, hd harness.Dialect) error {
	d := hd.Ref()
	if hd.Has("ccfb-one-metric-block") && ccfbHasOneMetricBlock(c.P) {
		return nil // listed: num_reports is written as 0 for a block with one metric block
	}
	_, refErr := m.Encode(c.P, &m.EncOpts{D: d})
	representable := refErr == nil
	if hd.Has("c08-silent-mask:"+c.Row) && !representable {
		return nil // listed per row: this over-limit field/size is silently masked or wrapped (counted)
	}
	if refErr != nil && !errors.Is(refErr, m.ErrUnrepresentable) && !errors.Is(refErr, m.ErrTooLarge) {
		return fmt.Errorf("GENERATOR BUG: %v", refErr)
	}
	pk := conv.ToPion(c.P)
	var out []byte
	var err error
	if perr := harness.Guard(func() error { out, err = pk.Marshal(); return nil }); perr != nil {
		return fmt.Errorf("row %s (%s): Marshal panicked: %v", c.Row, c.Side, perr)
	}
	if err != nil {
		if len(out) != 0 {
			return fmt.Errorf("row %s (%s): Marshal returned an error (%v) together with %d bytes", c.Row, c.Side, err, len(out))
		}
		if representable && c.Enumerated && (c.Side == "below" || c.Side == "at") {
			return fmt.Errorf("row %s: a value %s its wire limit was rejected: %v\nvalue: %s", c.Row, c.Side, err, conv.JSON(c.P))
		}
		return nil
	}
	if !representable {
		return fmt.Errorf("row %s (%s): the value exceeds a wire limit (%v) but Marshal returned success and %d bytes - something was truncated, wrapped or dropped\nbytes: %s\nvalue: %s",
			c.Row, c.Side, refErr, len(out), hexs(out), conv.JSON(c.P))
	}
	// success: the emitted bytes must describe the whole value (independent decoder)
	got, derr := m.DecodeFrame(out, c.P.Kind, d)
	if derr != nil {
		return fmt.Errorf("row %s (%s): Marshal succeeded but the emitted bytes are not a well-formed %s: %v\nbytes: %s\nvalue: %s", c.Row, c.Side, c.P.Kind, derr, hexs(out), conv.JSON(c.P))
	}
	want := expectC08(c.P, d)
	if c.P.Kind == m.KTWCC {
		// the header is caller-supplied; padding flag and length word are judged by C05
		got.TWCC.HdrLength, got.TWCC.Padding = want.TWCC.HdrLength, want.TWCC.Padding
	}
	if !conv.Equal(want, got) {
		return fmt.Errorf("row %s (%s): Marshal succeeded but the emitted bytes do not represent the value's content\n%s\nbytes: %s", c.Row, c.Side, conv.Diff(want, got), hexs(out))
	}
	return nil
})

// c08SymSize: the symbol-size selector of a status vector chunk is a one-bit field that the
// model (a bool) cannot over-fill, so it is probed on the library's struct directly.
type c08SymSize struct {
	SymbolSize uint16
	Symbols    []uint16
}

var subC08SymSize = harness.NewSub("c08-twcc-symbol-size-field", func(c c08SymSize, _ harness.Dialect) error {
	ch := rtcp.StatusVectorChunk{Type: rtcp.TypeTCCStatusVectorChunk, SymbolSize: c.SymbolSize, SymbolList: append([]uint16(nil), c.Symbols...)}
	b, err := ch.Marshal()
	if c.SymbolSize > 1 {
		if err == nil {
			return fmt.Errorf("StatusVectorChunk{SymbolSize: %d, SymbolList: %v}.Marshal() = %x with a nil error: the one-bit symbol size field cannot hold %d", c.SymbolSize, c.Symbols, b, c.SymbolSize)
		}
		return nil
	}
	if err != nil {
		return fmt.Errorf("StatusVectorChunk{SymbolSize: %d, SymbolList: %v}.Marshal(): %v", c.SymbolSize, c.Symbols, err)
	}
	want, _ := m.ChunkWord(m.TWCCChunk{Vector: true, TwoBit: c.SymbolSize == 1, Symbols: c.Symbols})
	if len(b) != 2 || uint16(b[0])<<8|uint16(b[1]) != want {
		return fmt.Errorf("StatusVectorChunk{SymbolSize: %d, SymbolList: %v}.Marshal() = %x, want %04x", c.SymbolSize, c.Symbols, b, want)
	}
	return nil
})

// c08HdrCount: TransportLayerCC carries a caller-supplied header; "a header count/subtype above
// 31 yields an error and no bytes" applies to its 5-bit count like to every other count.
type c08HdrCount struct {
	Count uint8
	P     m.Packet // a TWCC value supplying the content
}

var subC08HdrCount = harness.NewSub("c08-twcc-header-count", func(c c08HdrCount, _ harness.Dialect) error {
	pk := conv.ToPion(c.P).(*rtcp.TransportLayerCC)
	pk.Header.Count = c.Count
	b, err := safeMarshal(pk)
	if c.Count > 31 {
		if err == nil {
			return fmt.Errorf("TransportLayerCC with Header.Count %d marshalled without error: first octet %#02x (the count field has 5 bits)", c.Count, b[0])
		}
		if len(b) != 0 {
			return fmt.Errorf("TransportLayerCC with Header.Count %d: error %v together with %d bytes", c.Count, err, len(b))
		}
		return nil
	}
	if err != nil {
		return fmt.Errorf("TransportLayerCC with Header.Count %d rejected: %v", c.Count, err)
	}
	if b[0]&0x1F != c.Count || b[0]>>6 != 2 {
		return fmt.Errorf("TransportLayerCC with Header.Count %d: first octet %#02x", c.Count, b[0])
	}
	return nil
})

type c08Row struct {
	Name       string
	Enumerated bool
	// Build plants the probe on the given side into a generated value.
	Build func(t *rapid.T, side string) m.Packet
}

// c08Rep is the repetition index of the (row, side) pair being built: the "far beyond" probes
// cycle through their candidate values (among them values congruent to a valid one modulo 256
// or 65536, which a count kept in too few bits maps back into range) instead of drawing one.
var c08Rep int

func farOf(vs ...int) int { return vs[c08Rep%len(vs)] }

// c08FarN: the number of distinct "far beyond" probes the row being built has (set by farBits);
// the far side of such a row is repeated until every probe has been used once.
var c08FarN int

// farBits: the "far beyond" probes of a field of `bits` bits that the API keeps in a `width`-bit
// Go type: the largest value of the type and, for every bit position above the field, that bit
// alone, that bit with a small valid value and that bit with the largest valid value in the low
// bits - the values which a mask, or a range check made after a narrowing conversion, maps back
// into range (a symbol of 0x0100, a reference time of 2^31+5).
func farBits(bits, width uint) int {
	lim := 1 << bits
	vs := []int{1<<width - 1}
	for b := bits; b < width; b++ {
		vs = append(vs, 1<<b, 1<<b|1, 1<<b|(lim-1))
	}
	if len(vs) > c08FarN {
		c08FarN = len(vs)
	}
	return vs[c08Rep%len(vs)]
}

func pick(side string, below, at, above, far int) int {
	switch side {
	case "below":
		return below
	case "at":
		return at
	case "above":
		return above
	}
	return far
}

func rblocksN(t *rapid.T, n int) []m.RBlock {
	out := make([]m.RBlock, n)
	for i := range out {
		out[i] = gen.RBlock(t)
	}
	return out
}

func textN(t *rapid.T, n int) []byte {
	b := make([]byte, n)
	f := rapid.SampledFrom([]byte{'a', 0, 0xFF}).Draw(t, "fill")
	for i := range b {
		b[i] = f + byte(i%3)
	}
	return b
}

func c08Rows() []c08Row {
	return []c08Row{
		{"SR.reports<=31", true, func(t *rapid.T, s string) m.Packet {
			p := gen.PacketOf(t, m.KSR)
			p.SR.Reports = rblocksN(t, pick(s, 30, 31, 32, farOf(100, 256, 261, 287, 65541)))
			return p
		}},
		{"RR.reports<=31", true, func(t *rapid.T, s string) m.Packet {
			p := gen.PacketOf(t, m.KRR)
			p.RR.Reports = rblocksN(t, pick(s, 30, 31, 32, farOf(63, 256, 257, 287, 65541)))
			return p
		}},
		{"SDES.chunks<=31", true, func(t *rapid.T, s string) m.Packet {
			p := gen.PacketOf(t, m.KSDES)
			n := pick(s, 30, 31, 32, farOf(63, 256, 257, 287, 65541))
			for len(p.SDES.Chunks) < n {
				p.SDES.Chunks = append(p.SDES.Chunks, m.SDESChunk{Source: gen.U32(t, "src")})
			}
			p.SDES.Chunks = p.SDES.Chunks[:n]
			return p
		}},
		{"BYE.sources<=31", true, func(t *rapid.T, s string) m.Packet {
			p := gen.PacketOf(t, m.KBYE)
			n := pick(s, 30, 31, 32, farOf(63, 256, 257, 287, 65541))
			p.BYE.Sources = make([]uint32, n)
			for i := range p.BYE.Sources {
				p.BYE.Sources[i] = gen.U32(t, "src")
			}
			return p
		}},
		{"APP.subtype<=31", true, func(t *rapid.T, s string) m.Packet {
			p := gen.PacketOf(t, m.KAPP)
			p.APP.Subtype = uint8(pick(s, 30, 31, 32, farBits(5, 8)))
			return p
		}},
		{"SDES.text<=255", true, func(t *rapid.T, s string) m.Packet {
			p := m.Packet{Kind: m.KSDES, SDES: gen.SDESWithCNAME(t)}
			ci := rapid.IntRange(0, len(p.SDES.Chunks)-1).Draw(t, "chunk")
			for len(p.SDES.Chunks[ci].Items) == 0 {
				p.SDES.Chunks[ci].Items = append(p.SDES.Chunks[ci].Items, gen.SDESItem(t, false))
			}
			ii := rapid.IntRange(0, len(p.SDES.Chunks[ci].Items)-1).Draw(t, "item")
			p.SDES.Chunks[ci].Items[ii].Text = textN(t, pick(s, 254, 255, 256, farOf(260, 511, 1000, 65539)))
			return p
		}},
		{"BYE.reason<=255", true, func(t *rapid.T, s string) m.Packet {
			p := gen.PacketOf(t, m.KBYE)
			p.BYE.Reason = textN(t, pick(s, 254, 255, 256, farOf(260, 511, 65540, 70000)))
			return p
		}},
		{"SR.TotalLost<2^24", true, func(t *rapid.T, s string) m.Packet {
			p := gen.PacketOf(t, m.KSR)
			if len(p.SR.Reports) == 0 {
				p.SR.Reports = rblocksN(t, 1)
			}
			i := rapid.IntRange(0, len(p.SR.Reports)-1).Draw(t, "blk")
			far := farBits(24, 32)
			p.SR.Reports[i].Lost = uint32(pick(s, 1<<24-2, 1<<24-1, 1<<24, far))
			return p
		}},
		{"RR.TotalLost<2^24", true, func(t *rapid.T, s string) m.Packet {
			p := gen.PacketOf(t, m.KRR)
			if len(p.RR.Reports) == 0 {
				p.RR.Reports = rblocksN(t, 1)
			}
			i := rapid.IntRange(0, len(p.RR.Reports)-1).Draw(t, "blk")
			far := farBits(24, 32)
			p.RR.Reports[i].Lost = uint32(pick(s, 1<<24-2, 1<<24-1, 1<<24, far))
			return p
		}},
		{"REMB.ssrcs<=255", true, func(t *rapid.T, s string) m.Packet {
			p := gen.PacketOf(t, m.KREMB)
			n := pick(s, 254, 255, 256, farOf(257, 300, 511, 512, 65536, 65539))
			p.REMB.SSRCs = make([]uint32, n)
			for i := range p.REMB.SSRCs {
				p.REMB.SSRCs[i] = uint32(i) * 2654435761
			}
			return p
		}},
		{"CCFB.metrics<=16384", true, func(t *rapid.T, s string) m.Packet {
			p := m.Packet{Kind: m.KCCFB, CCFB: &m.CCFB{Sender: gen.U32(t, "sender"), Timestamp: gen.U32(t, "ts")}}
			n := pick(s, 16383, 16384, 16385, farOf(65538, 65537, 20000, 32768))
			b := m.CCFBBlock{SSRC: gen.U32(t, "ssrc"), BeginSeq: uint16(rapid.IntRange(0, max(0, 65535-n-1)).Draw(t, "begin")), Metrics: make([]m.CCFBMetric, n)}
			for i := range b.Metrics {
				if i%3 != 0 {
					b.Metrics[i] = m.CCFBMetric{Received: true, ECN: uint8(i & 3), ATO: uint16(i & 0x1FFF)}
				}
			}
			p.CCFB.Blocks = append(p.CCFB.Blocks, b)
			return p
		}},
		{"APP.name==4", true, func(t *rapid.T, s string) m.Packet {
			p := gen.PacketOf(t, m.KAPP)
			p.APP.Name = textN(t, pick(s, 4, 4, rapid.SampledFrom([]int{3, 5}).Draw(t, "n"), farOf(0, 1, 8, 260, 300, 65540)))
			return p
		}},
		{"REMB.bitrate>=0", true, func(t *rapid.T, s string) m.Packet {
			p := gen.PacketOf(t, m.KREMB)
			switch s {
			case "below":
				p.REMB.Bitrate = rapid.SampledFrom([]float32{1, math.SmallestNonzeroFloat32, 0.25}).Draw(t, "v")
			case "at":
				p.REMB.Bitrate = rapid.SampledFrom([]float32{0, float32(math.Copysign(0, -1))}).Draw(t, "v")
			case "above":
				p.REMB.Bitrate = rapid.SampledFrom([]float32{-math.SmallestNonzeroFloat32, -1e-20, -0.5}).Draw(t, "v")
			default:
				p.REMB.Bitrate = rapid.SampledFrom([]float32{-1, -262144, -math.MaxFloat32, float32(math.Inf(-1))}).Draw(t, "v")
			}
			return p
		}},
		{"TWCC.smalldelta in 0..255", true, func(t *rapid.T, s string) m.Packet {
			return twccWithDelta(t, false, int64(pick(s, 254, 255, 256, farOf(-1, -256, 300, 70000))))
		}},
		{"TWCC.smalldelta>=0", true, func(t *rapid.T, s string) m.Packet {
			return twccWithDelta(t, false, int64(pick(s, 1, 0, -1, -300)))
		}},
		{"TWCC.largedelta<=32767", true, func(t *rapid.T, s string) m.Packet {
			return twccWithDelta(t, true, int64(pick(s, 32766, 32767, 32768, 1<<31)))
		}},
		{"TWCC.largedelta>=-32768", true, func(t *rapid.T, s string) m.Packet {
			return twccWithDelta(t, true, int64(pick(s, -32767, -32768, -32769, -(1<<40))))
		}},
		{"SDES.itemtype!=0", true, func(t *rapid.T, s string) m.Packet {
			p := m.Packet{Kind: m.KSDES, SDES: gen.SDESWithCNAME(t)}
			if s == "above" || s == "far" {
				ci := rapid.IntRange(0, len(p.SDES.Chunks)-1).Draw(t, "chunk")
				for len(p.SDES.Chunks[ci].Items) == 0 {
					p.SDES.Chunks[ci].Items = append(p.SDES.Chunks[ci].Items, gen.SDESItem(t, false))
				}
				ii := rapid.IntRange(0, len(p.SDES.Chunks[ci].Items)-1).Draw(t, "item")
				p.SDES.Chunks[ci].Items[ii].Type = 0
			}
			return p
		}},
		// ---- general clause: every bounded field represents the actual content ----
		{"SLI.first<2^13", false, func(t *rapid.T, s string) m.Packet {
			p := sliWithEntry(t)
			p.SLI.Entries[0].First = uint16(pick(s, 8190, 8191, 8192, farBits(13, 16)))
			return p
		}},
		{"SLI.number<2^13", false, func(t *rapid.T, s string) m.Packet {
			p := sliWithEntry(t)
			p.SLI.Entries[0].Number = uint16(pick(s, 8190, 8191, 8192, farBits(13, 16)))
			return p
		}},
		{"SLI.picture<2^6", false, func(t *rapid.T, s string) m.Packet {
			p := sliWithEntry(t)
			p.SLI.Entries[0].Picture = uint8(pick(s, 62, 63, 64, farBits(6, 8)))
			return p
		}},
		{"NACK.pairs", false, func(t *rapid.T, s string) m.Packet {
			p := gen.PacketOf(t, m.KNACK)
			n := pick(s, 252, 253, 254, farOf(255, 256, 16383, 16384, 65539, 70000))
			p.NACK.Pairs = make([]m.NackPair, n)
			for i := range p.NACK.Pairs {
				p.NACK.Pairs[i] = m.NackPair{PID: uint16(i), BLP: uint16(i * 3)}
			}
			return p
		}},
		{"SLI.entries", false, func(t *rapid.T, s string) m.Packet {
			p := gen.PacketOf(t, m.KSLI)
			n := pick(s, 252, 253, 254, farOf(255, 256, 16384, 65539, 70000))
			p.SLI.Entries = make([]m.SLIEntry, n)
			for i := range p.SLI.Entries {
				p.SLI.Entries[i] = m.SLIEntry{First: uint16(i & 0x1FFF), Number: 1, Picture: uint8(i & 63)}
			}
			return p
		}},
		{"TWCC.reftime<2^24", false, func(t *rapid.T, s string) m.Packet {
			p := gen.PacketOf(t, m.KTWCC)
			p.TWCC.RefTime = uint32(pick(s, 1<<24-2, 1<<24-1, 1<<24, farBits(24, 32)))
			return p
		}},
		{"TWCC.runlength<2^13", false, func(t *rapid.T, s string) m.Packet {
			n := pick(s, 8190, 8191, 8192, farBits(13, 16))
			v := &m.TWCC{Sender: 1, Media: 2, StatusCount: uint16(n), Chunks: []m.TWCCChunk{{Symbol: 0, Run: uint16(n)}}}
			gen.FixTWCCHeader(v, false)
			return m.Packet{Kind: m.KTWCC, TWCC: v}
		}},
		{"TWCC.runsymbol<4", false, func(t *rapid.T, s string) m.Packet {
			v := &m.TWCC{Sender: 1, Media: 2, StatusCount: 5, Chunks: []m.TWCCChunk{{Symbol: uint16(pick(s, 0, 3, 4, farBits(2, 16))), Run: 5}}}
			gen.FixTWCCHeader(v, false)
			return m.Packet{Kind: m.KTWCC, TWCC: v}
		}},
		{"TWCC.onebitsymbol<2", false, func(t *rapid.T, s string) m.Packet {
			syms := make([]uint16, 14)
			syms[3] = uint16(pick(s, 0, 1, 2, farBits(1, 16)))
			v := &m.TWCC{Sender: 1, Media: 2, StatusCount: 14, Chunks: []m.TWCCChunk{{Vector: true, Symbols: syms}}}
			if syms[3] == 1 {
				v.Deltas = []m.TWCCDelta{{Micros: 250}}
			}
			gen.FixTWCCHeader(v, false)
			return m.Packet{Kind: m.KTWCC, TWCC: v}
		}},
		{"TWCC.twobitsymbol<4", false, func(t *rapid.T, s string) m.Packet {
			syms := make([]uint16, 7)
			syms[2] = uint16(pick(s, 0, 3, 4, farBits(2, 16)))
			v := &m.TWCC{Sender: 1, Media: 2, StatusCount: 7, Chunks: []m.TWCCChunk{{Vector: true, TwoBit: true, Symbols: syms}}}
			gen.FixTWCCHeader(v, false)
			return m.Packet{Kind: m.KTWCC, TWCC: v}
		}},
		{"TWCC.padding-flag-keeps-content", false, func(t *rapid.T, s string) m.Packet {
			// the caller-supplied padding flag on content that is (below/at: not) already word aligned:
			// either way no receive delta may be lost
			want := 1
			if s == "above" || s == "far" {
				want = 0 // aligned content: no padding octets exist
			}
			for {
				p := gen.PacketOf(t, m.KTWCC)
				if len(p.TWCC.Deltas) == 0 {
					continue
				}
				pad := (4 - m.TWCCContentSize(p.TWCC)%4) % 4
				if (pad > 0) == (want == 1) {
					gen.FixTWCCHeader(p.TWCC, true)
					p.TWCC.Padding = true
					return p
				}
			}
		}},
		{"TWCC.symbollist<=14/7", false, func(t *rapid.T, s string) m.Packet {
			two := rapid.Bool().Draw(t, "two")
			limit := 14
			if two {
				limit = 7
			}
			n := pick(s, limit-1, limit, limit+1, limit+20)
			syms := make([]uint16, n)
			v := &m.TWCC{Sender: 1, Media: 2, StatusCount: uint16(limit), Chunks: []m.TWCCChunk{{Vector: true, TwoBit: two, Symbols: syms}}}
			gen.FixTWCCHeader(v, false)
			return m.Packet{Kind: m.KTWCC, TWCC: v}
		}},
		{"CCFB.ato<2^13", false, func(t *rapid.T, s string) m.Packet {
			p := ccfbTwoMetrics(t)
			p.CCFB.Blocks[0].Metrics[0] = m.CCFBMetric{Received: true, ECN: 1, ATO: uint16(pick(s, 8190, 8191, 8192, farBits(13, 16)))}
			return p
		}},
		{"CCFB.ecn<4", false, func(t *rapid.T, s string) m.Packet {
			p := ccfbTwoMetrics(t)
			p.CCFB.Blocks[0].Metrics[0] = m.CCFBMetric{Received: true, ECN: uint8(pick(s, 2, 3, 4, farBits(2, 8))), ATO: 77}
			return p
		}},
		{"XR.T<16", false, func(t *rapid.T, s string) m.Packet {
			b := gen.XRBlock(t, rapid.SampledFrom([]int{m.XRLossRLE, m.XRDupRLE, m.XRPRT}).Draw(t, "bt"))
			b.T = uint8(pick(s, 14, 15, 16, farBits(4, 8)))
			return m.Packet{Kind: m.KXR, XR: &m.XR{Sender: 9, Blocks: []m.XRBlock{b}}}
		}},
		{"XR.ToH<4", false, func(t *rapid.T, s string) m.Packet {
			b := gen.XRBlock(t, m.XRSS)
			b.SS.ToH = uint8(pick(s, 2, 3, 4, farBits(2, 8)))
			return m.Packet{Kind: m.KXR, XR: &m.XR{Sender: 9, Blocks: []m.XRBlock{b}}}
		}},
		{"size<=65536words:FIR", false, func(t *rapid.T, s string) m.Packet {
			n := pick(s, 8189, 8190, 8191, 40000) // 12+8n octets: 8190 entries = 65532 octets... the limit is 32766 entries
			n = pick(s, 32765, 32766, 32767, farOf(65537, 40000))
			p := m.Packet{Kind: m.KFIR, FIR: &m.FIR{Sender: 1, Media: 2, Entries: make([]m.FIREntry, n)}}
			for i := range p.FIR.Entries {
				p.FIR.Entries[i] = m.FIREntry{SSRC: uint32(i), Seq: uint8(i)}
			}
			return p
		}},
		{"size<=65536words:SR.ext", false, func(t *rapid.T, s string) m.Packet {
			p := gen.PacketOf(t, m.KSR)
			p.SR.Reports = nil
			p.SR.Ext = make([]byte, pick(s, 262144-28-4, 262144-28, 262144-28+4, 300000))
			return p
		}},
		{"size<=65536words:RR.ext", false, func(t *rapid.T, s string) m.Packet {
			p := gen.PacketOf(t, m.KRR)
			p.RR.Reports = nil
			p.RR.Ext = make([]byte, pick(s, 262144-8-4, 262144-8, 262144-8+4, 300000))
			return p
		}},
		{"size<=65536words:SDES", false, func(t *rapid.T, s string) m.Packet {
			p := m.Packet{Kind: m.KSDES, SDES: &m.SDES{}}
			if s == "far" {
				// 31 chunks x items of 255 octets; each item is 257 octets
				items, per := 1300, 42
				for c := 0; c < 31 && items > 0; c++ {
					ch := m.SDESChunk{Source: uint32(c)}
					for i := 0; i < per && items > 0; i++ {
						ch.Items = append(ch.Items, m.SDESItem{Type: 2, Text: textN(t, 255)})
						items--
					}
					p.SDES.Chunks = append(p.SDES.Chunks, ch)
				}
				return p
			}
			// one chunk: 4 (source) + 1019 x 257 + (2 + L) + terminator, padded to a word; with
			// L = 250 the packet is exactly 262144 octets (length field 65535), L = 251 one word more
			ch := m.SDESChunk{Source: 7}
			for i := 0; i < 1019; i++ {
				ch.Items = append(ch.Items, m.SDESItem{Type: 2, Text: textN(t, 255)})
			}
			ch.Items = append(ch.Items, m.SDESItem{Type: 3, Text: textN(t, pick(s, 246, 250, 251, 0))})
			p.SDES.Chunks = []m.SDESChunk{ch}
			return p
		}},
		{"size<=65536words:CCFB", false, func(t *rapid.T, s string) m.Packet {
			// 12 + sum(8 + 2n) octets: seven blocks of 16384 metric blocks and an eighth of 16346 make
			// exactly 262144 octets (length field 65535); 16348 in the eighth is one word more
			blocks := pick(s, 8, 8, 8, 12)
			p := m.Packet{Kind: m.KCCFB, CCFB: &m.CCFB{Sender: 1, Timestamp: 2}}
			for b := 0; b < blocks; b++ {
				n := 16384
				if s != "far" && b == blocks-1 {
					n = pick(s, 16344, 16346, 16348, 0)
				}
				p.CCFB.Blocks = append(p.CCFB.Blocks, m.CCFBBlock{SSRC: uint32(b), BeginSeq: 0, Metrics: make([]m.CCFBMetric, n)})
			}
			return p
		}},
		{"size<=65536words:XR", false, func(t *rapid.T, s string) m.Packet {
			n := pick(s, 65530, 65531, 65532, 80000) // receipt times: 4 octets each; block = 12 + 4n, packet = 8 + block: 65531 => 262144 octets
			b := m.XRBlock{BT: m.XRPRT, T: 1, SSRC: 5, Times: make([]uint32, n)}
			return m.Packet{Kind: m.KXR, XR: &m.XR{Sender: 9, Blocks: []m.XRBlock{b}}}
		}},
		{"size<=65536words:TWCC.chunks", false, func(t *rapid.T, s string) m.Packet {
			n := pick(s, 32758, 131062, 131063, 140000) // 20 + 2n octets; 131062 chunks = 262144 octets
			// zero-length runs cover no status, so any number of them is a valid chunk list; the
			// last chunk covers the single status
			v := &m.TWCC{Sender: 1, Media: 2, StatusCount: 1, Chunks: make([]m.TWCCChunk, n)}
			v.Chunks[n-1] = m.TWCCChunk{Symbol: 0, Run: 1}
			gen.FixTWCCHeader(v, false)
			return m.Packet{Kind: m.KTWCC, TWCC: v}
		}},
		{"size:APP.data", false, func(t *rapid.T, s string) m.Packet {
			p := gen.PacketOf(t, m.KAPP)
			p.APP.Data = make([]byte, pick(s, 65522, 65523, 65524, 262144))
			return p
		}},
	}
}

func twccWithDelta(t *rapid.T, large bool, ticks int64) m.Packet {
	s := gen.Statuses(t, 40)
	// make sure there is a delta of the probed class, at a drawn position
	sym := uint16(m.SymSmall)
	if large {
		sym = m.SymLarge
	}
	pos := rapid.IntRange(0, len(s.Statuses)).Draw(t, "pos")
	st := append(append(append([]uint16(nil), s.Statuses[:pos]...), sym), s.Statuses[pos:]...)
	var ticksOut []int64
	k := 0
	for i, x := range st {
		if i == pos {
			ticksOut = append(ticksOut, ticks)
			continue
		}
		if x == m.SymSmall || x == m.SymLarge {
			ticksOut = append(ticksOut, s.Ticks[k])
			k++
		}
	}
	seq := gen.TWCCSeq{Statuses: st, Ticks: ticksOut}
	return m.Packet{Kind: m.KTWCC, TWCC: gen.BuildTWCC(t, seq, gen.Chunking(t, st, false))}
}

func sliWithEntry(t *rapid.T) m.Packet {
	p := gen.PacketOf(t, m.KSLI)
	if len(p.SLI.Entries) == 0 {
		p.SLI.Entries = []m.SLIEntry{{First: 1, Number: 2, Picture: 3}}
	}
	if len(p.SLI.Entries) > 5 {
		p.SLI.Entries = p.SLI.Entries[:5]
	}
	return p
}

func ccfbTwoMetrics(t *rapid.T) m.Packet {
	return m.Packet{Kind: m.KCCFB, CCFB: &m.CCFB{Sender: gen.U32(t, "sender"), Timestamp: gen.U32(t, "ts"),
		Blocks: []m.CCFBBlock{{SSRC: gen.U32(t, "ssrc"), BeginSeq: 100, Metrics: []m.CCFBMetric{{}, {Received: true, ECN: 2, ATO: 5}}}}}}
}

func TestC08(t *testing.T) {
	defer harness.Uncaught(t)
	rows := c08Rows()
	per := harness.Scale(12, 120)
	base := int(harness.SeedFor(8) % (1 << 30))
	sides := []string{"below", "at", "above", "far"}
	var jobs [][2]int
	for r := range rows {
		for s := range sides {
			jobs = append(jobs, [2]int{r, s})
		}
	}
	lo, hi := harness.ShardRange(int64(len(jobs)))
	var n int64
	for ji := lo; ji < hi; ji++ {
		row, side := rows[jobs[ji][0]], sides[jobs[ji][1]]
		reps := per
		if len(row.Name) > 5 && row.Name[:5] == "size<" || row.Name == "size:APP.data" || row.Name == "CCFB.metrics<=16384" {
			reps = 1 + per/12 // the slow rows
		}
		c08FarN = 0
		for k := 0; k < reps || (side == "far" && k < c08FarN); k++ {
			c08Rep = k
			g := rapid.Custom(func(rt *rapid.T) m.Packet {
				_ = rapid.Bool().Draw(rt, "_")
				return row.Build(rt, side)
			})
			c := c08Case{Row: row.Name, Side: side, Enumerated: row.Enumerated, P: g.Example(base + int(ji)*4096 + k)}
			harness.Class("row:"+row.Name+":"+side, 1)
			before := harness.S.Known["c08-silent-mask:"+row.Name]
			subC08.Check(t, c)
			_ = before
			n++
			if k == 0 && len(conv.JSON(c.P)) < 1200 {
				harness.Sample(subC08.Name, harness.Hash([]string{row.Name, side}), map[string]interface{}{"Row": row.Name, "Side": side, "P": c.P})
			}
		}
		harness.NonTrivialHash(harness.Hash([]string{row.Name, side}))
	}
	harness.Eval(subC08.Name, n)
	harness.NonTrivialDistinct(n - (hi - lo))
	harness.Exhaustive(subC08.Name, fmt.Sprintf("%d limit rows x {below, at, above, far beyond} x generated surrounding values", len(rows)))

	if harness.Cfg.Shard == 0 {
		for _, sz := range []uint16{0, 1, 2, 3, 4, 0x8000, 0xFFFF} {
			for _, syms := range [][]uint16{nil, {0}, {1, 0, 1}, {0, 0, 0, 0, 0, 0, 0}} {
				subC08SymSize.Check(t, c08SymSize{SymbolSize: sz, Symbols: syms})
				harness.Eval(subC08SymSize.Name, 1)
				harness.NonTrivialDistinct(1)
			}
		}
		harness.Sample(subC08SymSize.Name, 9, c08SymSize{SymbolSize: 2, Symbols: []uint16{1, 0, 1}})
		g := rapid.Custom(func(rt *rapid.T) m.Packet { return gen.PacketOf(rt, m.KTWCC) })
		for count := 0; count <= 255; count++ {
			p := g.Example(int(harness.SeedFor(8080)%100000) + count%4)
			subC08HdrCount.Check(t, c08HdrCount{Count: uint8(count), P: p})
		}
		harness.Eval(subC08HdrCount.Name, 256)
		harness.NonTrivialDistinct(256)
		harness.Exhaustive(subC08HdrCount.Name, "all 256 values of TransportLayerCC.Header.Count")
		harness.Sample(subC08HdrCount.Name, 32, map[string]int{"Count": 32})
	}
	// boundary probes embedded in fully random D-values are also covered by drawing plain D-values
	harness.RapidCheck(t, harness.Scale(1500, 12000), 88, func(rt *rapid.T) {
		c := c08Case{Row: "D-value", Side: "below", Enumerated: true, P: gen.Packet(rt)}
		harness.Record(subC08.Name, c, valueNonTrivial(c.P), "row:D-value")
		subC08.Check(rt, c)
	})
}
