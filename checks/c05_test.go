package checks

import (
	"fmt"
	"testing"

	"github.com/pion/rtcp"
	"pgregory.net/rapid"

	"verif/conv"
	"verif/gen"
	"verif/harness"
	m "verif/refmodel"
)

// C05: whenever Marshal succeeds (and the encoding fits the 16-bit length field) the output
// is well framed and its length equals MarshalSize; Header()/Len() agree; compound size = sum.

type headerer interface{ Header() rtcp.Header }

func checkFraming(p m.Packet, d harness.Dialect) error {
	pk := conv.ToPion(p)
	out, err := pk.Marshal()
	if err != nil {
		return nil // the property only speaks about successful Marshal calls
	}
	if len(out) > 4*65536 {
		return nil // does not fit the 16-bit length field: outside this property (C08 covers it)
	}
	if p.Kind == m.KCOMPOUND {
		sum := 0
		for _, x := range p.Compound {
			sum += conv.ToPion(x).MarshalSize()
		}
		if got := pk.MarshalSize(); got != sum {
			return fmt.Errorf("CompoundPacket.MarshalSize() = %d, sum over members = %d", got, sum)
		}
		if len(out) != sum {
			return fmt.Errorf("CompoundPacket: len(Marshal()) = %d, MarshalSize() = %d", len(out), sum)
		}
		frames, ferr := m.SplitFrames(out)
		if ferr != nil || len(frames) != len(p.Compound) {
			return fmt.Errorf("CompoundPacket output does not split into %d frames: %v (%d)", len(p.Compound), ferr, len(frames))
		}
		return nil
	}
	if ms := pk.MarshalSize(); ms != len(out) {
		return fmt.Errorf("%s: MarshalSize() = %d but len(Marshal()) = %d\nvalue: %s", p.Kind, ms, len(out), conv.JSON(p))
	}
	if len(out)%4 != 0 || len(out) < 4 {
		return fmt.Errorf("%s: output length %d is not a positive multiple of 4\nbytes: %s\nvalue: %s", p.Kind, len(out), hexs(out), conv.JSON(p))
	}
	h, _ := m.ParseHdr(out)
	if h.Version != 2 {
		return fmt.Errorf("%s: version %d", p.Kind, h.Version)
	}
	if h.Length != len(out)/4-1 {
		return fmt.Errorf("%s: header length field %d, output is %d octets (= %d words minus one)\nbytes: %s\nvalue: %s", p.Kind, h.Length, len(out), len(out)/4-1, hexs(out), conv.JSON(p))
	}
	wantPT, wantCount, fixedCount := m.PTFMT(p.Kind, d.Ref())
	elements := -1 // for the types whose count field counts list elements
	switch p.Kind {
	case m.KRAW:
		wantPT, wantCount, fixedCount = p.RAW[1], p.RAW[0]&0x1f, true
	case m.KSR:
		elements = len(p.SR.Reports)
	case m.KRR:
		elements = len(p.RR.Reports)
	case m.KSDES:
		elements = len(p.SDES.Chunks)
	case m.KBYE:
		elements = len(p.BYE.Sources)
	case m.KAPP:
		wantCount, fixedCount = p.APP.Subtype, true
	}
	if elements >= 0 {
		// compared as integers: a count kept in 8 bits agrees with itself modulo 256
		if int(h.Count) != elements {
			return fmt.Errorf("%s: Marshal succeeded for %d elements and the header's count field says %d", p.Kind, elements, h.Count)
		}
		wantCount, fixedCount = h.Count, true
	}
	if h.PT != wantPT {
		return fmt.Errorf("%s: packet type %d, registered %d", p.Kind, h.PT, wantPT)
	}
	if fixedCount && h.Count != wantCount {
		return fmt.Errorf("%s: count/FMT %d, want %d", p.Kind, h.Count, wantCount)
	}
	frames, ferr := m.SplitFrames(out)
	if ferr != nil || len(frames) != 1 {
		return fmt.Errorf("%s: output does not split into exactly one frame: %v (%d frames)", p.Kind, ferr, len(frames))
	}
	// accessors
	if hh, ok := pk.(headerer); ok {
		ph := hh.Header()
		if int(ph.Length) != h.Length || uint8(ph.Type) != h.PT || ph.Count != h.Count || ph.Padding != h.Padding {
			return fmt.Errorf("%s: Header() = %+v but the emitted header is %+v", p.Kind, ph, h)
		}
	}
	switch v := pk.(type) {
	case *rtcp.TransportLayerCC:
		if int(v.Len()) != len(out) {
			if d.Has("twcc-len-uint16") && len(out) >= 1<<16 {
				break // listed: Len() returns a uint16, so it cannot report 65536 octets or more
			}
			return fmt.Errorf("TWCC: Len() = %d, output is %d octets", v.Len(), len(out))
		}
	case *rtcp.CCFeedbackReport:
		if v.Len() != len(out) {
			return fmt.Errorf("CCFB: Len() = %d, output %d", v.Len(), len(out))
		}
	}
	return nil
}

var subC05 = harness.NewSub("c05-framing-and-size", func(c valCase, d harness.Dialect) error {
	return checkFraming(c.P, d)
})

// genC05Value: D plus deliberately unaligned variable-length parts.
// oneIn200 is sampled uniformly (rapid biases integer ranges towards their ends).
var oneIn200 = func() []bool { b := make([]bool, 200); b[137] = true; return b }()

func genC05Value(t *rapid.T) (m.Packet, bool) {
	if rapid.SampledFrom(oneIn200).Draw(t, "bigtwcc?") {
		// a feedback packet of 64 KiB or more still fits the 16-bit length field (in words)
		n := rapid.SampledFrom([]int{32757, 32758, 32760, 40000, 100000}).Draw(t, "bigtwcc.chunks")
		v := &m.TWCC{Sender: 1, Media: 2, StatusCount: 1, Chunks: make([]m.TWCCChunk, n)}
		v.Chunks[n-1] = m.TWCCChunk{Symbol: 0, Run: 1}
		gen.FixTWCCHeader(v, false)
		return m.Packet{Kind: m.KTWCC, TWCC: v}, true
	}
	p := genValue(t)
	unaligned := false
	for _, x := range leafKindsOf(p) {
		switch x.Kind {
		case m.KSR:
			if rapid.IntRange(0, 2).Draw(t, "sr.unaligned?") == 0 {
				x.SR.Ext = gen.BytesN(t, rapid.IntRange(1, 23).Draw(t, "sr.extlen"), "sr.ext")
			}
			unaligned = unaligned || len(x.SR.Ext)%4 != 0
		case m.KRR:
			unaligned = unaligned || len(x.RR.Ext)%4 != 0
		case m.KXR:
			for i := range x.XR.Blocks {
				b := &x.XR.Blocks[i]
				if rapid.IntRange(0, 3).Draw(t, "xr.unaligned?") != 0 {
					continue
				}
				switch {
				case b.BT == m.XRLossRLE || b.BT == m.XRDupRLE:
					b.Chunks = append(b.Chunks, gen.U16(t, "xr.oddchunk"))
					unaligned = true
				case b.BT == 0 || b.BT > 7:
					b.Body = append(b.Body, gen.BytesN(t, rapid.IntRange(1, 3).Draw(t, "xr.bodyextra"), "xr.body")...)
					unaligned = true
				}
			}
		case m.KSDES:
			for _, c := range x.SDES.Chunks {
				n := 4
				for _, it := range c.Items {
					n += 2 + len(it.Text)
				}
				unaligned = unaligned || (n+1)%4 != 0
			}
		case m.KBYE:
			unaligned = unaligned || (len(x.BYE.Reason) > 0 && (1+len(x.BYE.Reason))%4 != 0)
		case m.KAPP:
			unaligned = unaligned || len(x.APP.Data)%4 != 0
		case m.KCCFB:
			for _, b := range x.CCFB.Blocks {
				unaligned = unaligned || len(b.Metrics)%2 == 1
			}
		case m.KTWCC:
			unaligned = unaligned || m.TWCCContentSize(x.TWCC)%4 != 0
		}
	}
	return p, unaligned
}

func c05ListAtEdge(p m.Packet) bool {
	for _, c := range classesOf(p) {
		n := len(c)
		if n > 2 && (c[n-2:] == "=0" || c[n-2:] == "=1" || (n > 4 && c[n-4:] == "=max")) {
			return true
		}
	}
	return false
}

func TestC05(t *testing.T) {
	defer harness.Uncaught(t)
	if harness.Cfg.Shard == 0 {
		// whenever Marshal succeeds - also for lists longer than the count field can say (Marshal
		// should refuse them, C08; if it does not, the header it emits is judged here)
		for _, n := range []int{32, 255, 256, 257, 287, 512} {
			srcs := make([]uint32, n)
			chunks := make([]m.SDESChunk, n)
			for i := range srcs {
				srcs[i] = uint32(i + 1)
				chunks[i] = m.SDESChunk{Source: uint32(i + 1), Items: []m.SDESItem{{Type: 1, Text: []byte("c")}}}
			}
			for _, p := range []m.Packet{
				{Kind: m.KSR, SR: &m.SR{SSRC: 1, Reports: make([]m.RBlock, n)}},
				{Kind: m.KRR, RR: &m.RR{SSRC: 1, Reports: make([]m.RBlock, n)}},
				{Kind: m.KSDES, SDES: &m.SDES{Chunks: chunks}},
				{Kind: m.KBYE, BYE: &m.BYE{Sources: srcs}},
			} {
				subC05.Check(t, valCase{P: p})
				harness.Eval(subC05.Name+"/over-long-list", 1)
			}
		}
		// "a packet whose encoding fits the 16-bit length field": the values that fill it, and the
		// longest lists (sizes and lengths kept in too few bits show here and nowhere below)
		for _, p := range append(c02MaxSizeValues(), c10MaximalLists()...) {
			subC05.Check(t, valCase{P: p})
			harness.Eval(subC05.Name+"/max-size", 1)
			harness.Class("max-size:"+string(p.Kind), 1)
			harness.NonTrivialDistinct(1)
		}
	}
	harness.RapidCheck(t, harness.Scale(8000, 60000), 5, func(rt *rapid.T) {
		p, unaligned := genC05Value(rt)
		c := valCase{P: p}
		cl := classesOf(p)
		if unaligned {
			cl = append(cl, "unaligned-variable-part")
		}
		if p.Kind == m.KTWCC && len(p.TWCC.Chunks) > 30000 {
			harness.Eval(subC05.Name, 1)
			harness.Class("TWCC.64KiB-or-more", 1)
			harness.NonTrivialHash(harness.Hash([]int{len(p.TWCC.Chunks)}))
		} else {
			harness.Record(subC05.Name, c, unaligned || c05ListAtEdge(p), cl...)
		}
		subC05.Check(rt, c)
	})
}
