package refmodel

import (
	"errors"
	"fmt"
	"math"
)

var (
	ErrUnrepresentable = errors.New("refmodel: value does not fit the wire format")
	ErrTooLarge        = errors.New("refmodel: encoding exceeds 65536 words")
)

// EncOpts selects the dialect and the RFC-permitted variant choices.
type EncOpts struct {
	D Dialect
	// Rsvd, when non-nil, supplies the value of each reserved / must-be-ignored bit field
	// (n = width in bits). nil => zero (canonical form).
	Rsvd func(n int) uint32
	// PadFill, when non-nil, supplies the value of padding octets whose value the RFC leaves open.
	PadFill func() byte
	// APPPadWords appends this many extra 32-bit words of RFC 3550 padding to an APP packet
	// (P bit set, last octet = count).
	APPPadWords int
	// REMBRaw overrides the (exp, mantissa) pair written into a REMB packet.
	REMBRaw *[2]uint32
	// BYEEmptyReason emits a present-but-empty reason (length octet 0 + 3 null octets).
	BYEEmptyReason bool
	// TWCCSizeOverride: if true, trust TWCC.HdrLength as is (do not recompute).
	TWCCKeepHdr bool
}

// Encoded is a reference encoding plus the mask of octets whose value is unspecified.
type Encoded struct {
	B        []byte
	DontCare []bool
}

type wbuf struct {
	b  []byte
	dc []bool
}

func (w *wbuf) u8(v uint8)   { w.b = append(w.b, v); w.dc = append(w.dc, false) }
func (w *wbuf) u16(v uint16) { w.u8(uint8(v >> 8)); w.u8(uint8(v)) }
func (w *wbuf) u24(v uint32) { w.u8(uint8(v >> 16)); w.u8(uint8(v >> 8)); w.u8(uint8(v)) }
func (w *wbuf) u32(v uint32) { w.u16(uint16(v >> 16)); w.u16(uint16(v)) }
func (w *wbuf) u64(v uint64) { w.u32(uint32(v >> 32)); w.u32(uint32(v)) }
func (w *wbuf) bytes(v []byte) {
	for _, x := range v {
		w.u8(x)
	}
}
func (w *wbuf) open(v uint8) { w.b = append(w.b, v); w.dc = append(w.dc, true) }
func (w *wbuf) zeroPadTo4() {
	for len(w.b)%4 != 0 {
		w.u8(0)
	}
}

func (o *EncOpts) rsvd(n int) uint32 {
	if o == nil || o.Rsvd == nil {
		return 0
	}
	return o.Rsvd(n) & (uint32(1)<<uint(n) - 1)
}

func (o *EncOpts) padFill() byte {
	if o == nil || o.PadFill == nil {
		return 0
	}
	return o.PadFill()
}

// header writes the 4-octet common header with a placeholder length; finish() patches it.
func (w *wbuf) header(padding bool, count uint8, pt uint8) {
	b0 := uint8(2<<6) | count&0x1f
	if padding {
		b0 |= 1 << 5
	}
	w.u8(b0)
	w.u8(pt)
	w.u16(0)
}

func (w *wbuf) finish() (Encoded, error) {
	if len(w.b)%4 != 0 {
		return Encoded{}, fmt.Errorf("refmodel: internal: unaligned encoding (%d)", len(w.b))
	}
	words := len(w.b)/4 - 1
	if words > 0xFFFF {
		return Encoded{}, ErrTooLarge
	}
	w.b[2] = uint8(words >> 8)
	w.b[3] = uint8(words)
	return Encoded{B: w.b, DontCare: w.dc}, nil
}

// PT/FMT table (the registered values).
func PTFMT(k Kind, d Dialect) (pt uint8, fmtv uint8, hasFmt bool) {
	switch k {
	case KSR:
		return 200, 0, false
	case KRR:
		return 201, 0, false
	case KSDES:
		return 202, 0, false
	case KBYE:
		return 203, 0, false
	case KAPP:
		return 204, 0, false
	case KNACK:
		return 205, 1, true
	case KRRR:
		return 205, 5, true
	case KCCFB:
		return 205, 11, true
	case KTWCC:
		return 205, 15, true
	case KPLI:
		return 206, 1, true
	case KSLI:
		if d.SLIPT205 {
			return 205, 2, true
		}
		return 206, 2, true
	case KFIR:
		return 206, 4, true
	case KREMB:
		return 206, 15, true
	case KXR:
		return 207, 0, true
	}
	return 0, 0, false
}

// Encode returns the reference encoding of p.
func Encode(p Packet, o *EncOpts) (Encoded, error) {
	if o == nil {
		o = &EncOpts{}
	}
	switch p.Kind {
	case KSR:
		return encSR(p.SR, o)
	case KRR:
		return encRR(p.RR, o)
	case KSDES:
		return encSDES(p.SDES, o)
	case KBYE:
		return encBYE(p.BYE, o)
	case KAPP:
		return encAPP(p.APP, o)
	case KNACK:
		return encNACK(p.NACK, o)
	case KRRR:
		return encFB(p.RRR, 205, 5)
	case KPLI:
		return encFB(p.PLI, 206, 1)
	case KSLI:
		return encSLI(p.SLI, o)
	case KFIR:
		return encFIR(p.FIR, o)
	case KREMB:
		return encREMB(p.REMB, o)
	case KTWCC:
		return encTWCC(p.TWCC, o)
	case KCCFB:
		return encCCFB(p.CCFB, o)
	case KXR:
		return encXR(p.XR, o)
	case KRAW:
		return Encoded{B: append([]byte(nil), p.RAW...), DontCare: make([]bool, len(p.RAW))}, nil
	case KCOMPOUND:
		var out Encoded
		for _, m := range p.Compound {
			e, err := Encode(m, o)
			if err != nil {
				return Encoded{}, err
			}
			out.B = append(out.B, e.B...)
			out.DontCare = append(out.DontCare, e.DontCare...)
		}
		return out, nil
	}
	return Encoded{}, fmt.Errorf("refmodel: unknown kind %q", p.Kind)
}

// EncodeList concatenates the encodings.
func EncodeList(ps []Packet, o *EncOpts) (Encoded, error) {
	return Encode(Packet{Kind: KCOMPOUND, Compound: ps}, o)
}

func (w *wbuf) rblock(r RBlock) error {
	if r.Lost >= 1<<24 {
		return ErrUnrepresentable
	}
	w.u32(r.SSRC)
	w.u8(r.Fraction)
	w.u24(r.Lost)
	w.u32(r.LastSeq)
	w.u32(r.Jitter)
	w.u32(r.LSR)
	w.u32(r.DLSR)
	return nil
}

func encSR(v *SR, o *EncOpts) (Encoded, error) {
	if len(v.Reports) > 31 {
		return Encoded{}, ErrUnrepresentable
	}
	w := &wbuf{}
	w.header(false, uint8(len(v.Reports)), 200)
	w.u32(v.SSRC)
	w.u64(v.NTP)
	w.u32(v.RTP)
	w.u32(v.Packets)
	w.u32(v.Octets)
	for _, r := range v.Reports {
		if err := w.rblock(r); err != nil {
			return Encoded{}, err
		}
	}
	w.bytes(v.Ext)
	w.zeroPadTo4()
	return w.finish()
}

func encRR(v *RR, o *EncOpts) (Encoded, error) {
	if len(v.Reports) > 31 {
		return Encoded{}, ErrUnrepresentable
	}
	w := &wbuf{}
	w.header(false, uint8(len(v.Reports)), 201)
	w.u32(v.SSRC)
	for _, r := range v.Reports {
		if err := w.rblock(r); err != nil {
			return Encoded{}, err
		}
	}
	w.bytes(v.Ext)
	w.zeroPadTo4()
	return w.finish()
}

func encSDES(v *SDES, o *EncOpts) (Encoded, error) {
	if len(v.Chunks) > 31 {
		return Encoded{}, ErrUnrepresentable
	}
	w := &wbuf{}
	w.header(false, uint8(len(v.Chunks)), 202)
	for _, c := range v.Chunks {
		w.u32(c.Source)
		for _, it := range c.Items {
			if it.Type == 0 || len(it.Text) > 255 {
				return Encoded{}, ErrUnrepresentable
			}
			w.u8(it.Type)
			w.u8(uint8(len(it.Text)))
			w.bytes(it.Text)
		}
		w.u8(0) // terminating null item
		w.zeroPadTo4()
	}
	return w.finish()
}

func encBYE(v *BYE, o *EncOpts) (Encoded, error) {
	if len(v.Sources) > 31 || len(v.Reason) > 255 {
		return Encoded{}, ErrUnrepresentable
	}
	w := &wbuf{}
	w.header(false, uint8(len(v.Sources)), 203)
	for _, s := range v.Sources {
		w.u32(s)
	}
	if len(v.Reason) > 0 || o.BYEEmptyReason {
		w.u8(uint8(len(v.Reason)))
		w.bytes(v.Reason)
		w.zeroPadTo4()
	}
	return w.finish()
}

func encAPP(v *APP, o *EncOpts) (Encoded, error) {
	if v.Subtype > 31 || len(v.Name) != 4 {
		return Encoded{}, ErrUnrepresentable
	}
	pad := (4 - len(v.Data)%4) % 4
	pad += 4 * o.APPPadWords
	if pad > 255 {
		return Encoded{}, ErrUnrepresentable
	}
	w := &wbuf{}
	w.header(pad > 0, v.Subtype, 204)
	w.u32(v.SSRC)
	w.bytes(v.Name)
	w.bytes(v.Data)
	for i := 0; i < pad; i++ {
		switch {
		case i == pad-1:
			w.u8(uint8(pad))
		case o != nil && o.PadFill != nil:
			// an RFC-valid input variant for the decode-side checks: a receiver ignores these octets
			w.open(o.PadFill())
		case o != nil && o.D.APPPadFillCount:
			w.u8(uint8(pad))
		default:
			// what a sender emits: "reserved and padding bits zero" (C03)
			w.u8(0)
		}
	}
	return w.finish()
}

func encNACK(v *NACK, o *EncOpts) (Encoded, error) {
	w := &wbuf{}
	w.header(false, 1, 205)
	w.u32(v.Sender)
	w.u32(v.Media)
	for _, p := range v.Pairs {
		w.u16(p.PID)
		w.u16(p.BLP)
	}
	return w.finish()
}

func encFB(v *FB, pt, fmtv uint8) (Encoded, error) {
	w := &wbuf{}
	w.header(false, fmtv, pt)
	w.u32(v.Sender)
	w.u32(v.Media)
	return w.finish()
}

func encSLI(v *SLI, o *EncOpts) (Encoded, error) {
	pt, f, _ := PTFMT(KSLI, o.D)
	w := &wbuf{}
	w.header(false, f, pt)
	w.u32(v.Sender)
	w.u32(v.Media)
	for _, e := range v.Entries {
		if e.First >= 1<<13 || e.Number >= 1<<13 || e.Picture >= 1<<6 {
			return Encoded{}, ErrUnrepresentable
		}
		w.u32(uint32(e.First)<<19 | uint32(e.Number)<<6 | uint32(e.Picture))
	}
	return w.finish()
}

func encFIR(v *FIR, o *EncOpts) (Encoded, error) {
	w := &wbuf{}
	w.header(false, 4, 206)
	w.u32(v.Sender)
	w.u32(v.Media)
	for _, e := range v.Entries {
		w.u32(e.SSRC)
		w.u8(e.Seq)
		w.u24(o.rsvd(24))
	}
	return w.finish()
}

// REMBEncode returns the canonical (exp, mantissa) for a non-negative bitrate: the largest
// value mantissa*2^exp <= x with an 18-bit mantissa and minimal exponent, saturating at
// 0x3FFFF * 2^63. All arithmetic is exact in float64.
func REMBEncode(x float32) (exp uint32, mant uint32, err error) {
	f := float64(x)
	if math.IsNaN(f) || f < 0 {
		return 0, 0, ErrUnrepresentable
	}
	max := math.Ldexp(float64(0x3FFFF), 63)
	if f >= max {
		return 63, 0x3FFFF, nil
	}
	e := 0
	for f >= float64(1<<18) {
		f /= 2
		e++
	}
	return uint32(e), uint32(math.Floor(f)), nil
}

// REMBValue is the value denoted by an (exp, mantissa) pair, as the nearest float32
// (mantissa has <= 18 significant bits, so the conversion is exact).
func REMBValue(exp, mant uint32, d Dialect) float32 {
	if mant == 0 && d.REMBZeroMantissa {
		return float32(math.Ldexp(1, int(exp)+23))
	}
	return float32(math.Ldexp(float64(mant), int(exp)))
}

func encREMB(v *REMB, o *EncOpts) (Encoded, error) {
	if len(v.SSRCs) > 255 {
		return Encoded{}, ErrUnrepresentable
	}
	var exp, mant uint32
	if o.REMBRaw != nil {
		exp, mant = o.REMBRaw[0], o.REMBRaw[1]
	} else {
		var err error
		exp, mant, err = REMBEncode(v.Bitrate)
		if err != nil {
			return Encoded{}, err
		}
	}
	w := &wbuf{}
	w.header(false, 15, 206)
	w.u32(v.Sender)
	w.u32(0)
	w.bytes([]byte("REMB"))
	w.u8(uint8(len(v.SSRCs)))
	w.u24(exp<<18 | mant)
	for _, s := range v.SSRCs {
		w.u32(s)
	}
	return w.finish()
}

// ChunkWord packs one TWCC status chunk.
func ChunkWord(c TWCCChunk) (uint16, error) {
	if !c.Vector {
		if c.Symbol > 3 || c.Run >= 1<<13 {
			return 0, ErrUnrepresentable
		}
		return c.Symbol<<13 | c.Run, nil
	}
	var wv uint16 = 1 << 15
	if c.TwoBit {
		wv |= 1 << 14
		if len(c.Symbols) > 7 {
			return 0, ErrUnrepresentable
		}
		for i, s := range c.Symbols {
			if s > 3 {
				return 0, ErrUnrepresentable
			}
			wv |= s << uint(12-2*i)
		}
		return wv, nil
	}
	if len(c.Symbols) > 14 {
		return 0, ErrUnrepresentable
	}
	for i, s := range c.Symbols {
		if s > 1 {
			return 0, ErrUnrepresentable
		}
		wv |= s << uint(13-i)
	}
	return wv, nil
}

// TWCCContentSize is the size in octets of header+fixed part+chunks+deltas, unpadded.
func TWCCContentSize(v *TWCC) int {
	n := 20 + 2*len(v.Chunks)
	for _, d := range v.Deltas {
		if d.Large {
			n += 2
		} else {
			n++
		}
	}
	return n
}

func encTWCC(v *TWCC, o *EncOpts) (Encoded, error) {
	if v.RefTime >= 1<<24 {
		return Encoded{}, ErrUnrepresentable
	}
	w := &wbuf{}
	w.header(v.Padding, 15, 205)
	w.u32(v.Sender)
	w.u32(v.Media)
	w.u16(v.BaseSeq)
	w.u16(v.StatusCount)
	w.u24(v.RefTime)
	w.u8(v.FbCount)
	for _, c := range v.Chunks {
		cw, err := ChunkWord(c)
		if err != nil {
			return Encoded{}, err
		}
		w.u16(cw)
	}
	for _, d := range v.Deltas {
		if d.Micros%250 != 0 {
			return Encoded{}, ErrUnrepresentable
		}
		t := d.Micros / 250
		if d.Large {
			if t < -32768 || t > 32767 {
				return Encoded{}, ErrUnrepresentable
			}
			w.u16(uint16(int16(t)))
		} else {
			if t < 0 || t > 255 {
				return Encoded{}, ErrUnrepresentable
			}
			w.u8(uint8(t))
		}
	}
	pad := (4 - len(w.b)%4) % 4
	for i := 0; i < pad; i++ {
		if i == pad-1 && v.Padding {
			w.u8(uint8(pad))
		} else {
			w.u8(0)
		}
	}
	e, err := w.finish()
	if err != nil {
		return e, err
	}
	if o.TWCCKeepHdr {
		e.B[2] = uint8(v.HdrLength >> 8)
		e.B[3] = uint8(v.HdrLength)
	}
	return e, nil
}

func encCCFB(v *CCFB, o *EncOpts) (Encoded, error) {
	w := &wbuf{}
	w.header(false, 11, 205)
	w.u32(v.Sender)
	for _, b := range v.Blocks {
		n := len(b.Metrics)
		if n > 16384 {
			return Encoded{}, ErrUnrepresentable
		}
		w.u32(b.SSRC)
		w.u16(b.BeginSeq)
		if o.D.CCFBMinusOne {
			if n > 0 {
				w.u16(uint16(n - 1))
			} else {
				w.u16(0)
			}
		} else {
			w.u16(uint16(n))
		}
		for _, m := range b.Metrics {
			if m.ECN > 3 || m.ATO >= 1<<13 {
				return Encoded{}, ErrUnrepresentable
			}
			var mw uint16
			if m.Received {
				mw = 1<<15 | uint16(m.ECN)<<13 | m.ATO
			} else {
				if m.ECN != 0 || m.ATO != 0 {
					return Encoded{}, ErrUnrepresentable
				}
				mw = uint16(o.rsvd(15)) // stray bits after R=0 must be ignored by the receiver
			}
			w.u16(mw)
		}
		if n%2 == 1 {
			w.u16(0)
		}
	}
	w.u32(v.Timestamp)
	return w.finish()
}

func encXR(v *XR, o *EncOpts) (Encoded, error) {
	w := &wbuf{}
	w.header(false, uint8(o.rsvd(5)), 207)
	w.u32(v.Sender)
	for i := range v.Blocks {
		if err := w.xrBlock(&v.Blocks[i], o); err != nil {
			return Encoded{}, err
		}
	}
	return w.finish()
}

func (w *wbuf) xrBlock(b *XRBlock, o *EncOpts) error {
	start := len(w.b)
	w.u8(b.BT)
	switch b.BT {
	case XRLossRLE, XRDupRLE, XRPRT:
		if b.T > 15 {
			return ErrUnrepresentable
		}
		w.u8(uint8(o.rsvd(4))<<4 | b.T)
		w.u16(0)
		w.u32(b.SSRC)
		w.u16(b.BeginSeq)
		w.u16(b.EndSeq)
		if b.BT == XRPRT {
			for _, t := range b.Times {
				w.u32(t)
			}
		} else {
			for _, c := range b.Chunks {
				w.u16(c)
			}
		}
	case XRRRT:
		w.u8(uint8(o.rsvd(8)))
		w.u16(0)
		w.u64(b.NTP)
	case XRDLRR:
		w.u8(uint8(o.rsvd(8)))
		w.u16(0)
		for _, s := range b.Subs {
			w.u32(s.SSRC)
			w.u32(s.LastRR)
			w.u32(s.DLRR)
		}
	case XRSS:
		s := b.SS
		if s.ToH > 3 {
			return ErrUnrepresentable
		}
		var ts uint8
		if s.L {
			ts |= 0x80
		}
		if s.D {
			ts |= 0x40
		}
		if s.J {
			ts |= 0x20
		}
		ts |= s.ToH << 3
		ts |= uint8(o.rsvd(3))
		w.u8(ts)
		w.u16(0)
		w.u32(s.SSRC)
		w.u16(s.BeginSeq)
		w.u16(s.EndSeq)
		w.u32(s.Lost)
		w.u32(s.Dup)
		w.u32(s.MinJitter)
		w.u32(s.MaxJitter)
		w.u32(s.MeanJitter)
		w.u32(s.DevJitter)
		w.u8(s.MinTTL)
		w.u8(s.MaxTTL)
		w.u8(s.MeanTTL)
		w.u8(s.DevTTL)
	case XRVoIP:
		m := b.VoIP
		w.u8(uint8(o.rsvd(8)))
		w.u16(0)
		w.u32(m.SSRC)
		w.u8(m.LossRate)
		w.u8(m.DiscardRate)
		w.u8(m.BurstDensity)
		w.u8(m.GapDensity)
		w.u16(m.BurstDuration)
		w.u16(m.GapDuration)
		w.u16(m.RTT)
		w.u16(m.EndSysDelay)
		w.u8(m.SignalLevel)
		w.u8(m.NoiseLevel)
		w.u8(m.RERL)
		w.u8(m.Gmin)
		w.u8(m.RFactor)
		w.u8(m.ExtRFactor)
		w.u8(m.MOSLQ)
		w.u8(m.MOSCQ)
		w.u8(m.RXConfig)
		w.u8(uint8(o.rsvd(8)))
		w.u16(m.JBNominal)
		w.u16(m.JBMax)
		w.u16(m.JBAbsMax)
	default:
		w.u8(b.TypeSpecific)
		w.u16(0)
		w.bytes(b.Body)
	}
	n := len(w.b) - start
	if n%4 != 0 {
		// RFC 3611: every block is a whole number of words. RLE chunk lists of odd length
		// and opaque bodies that are not a multiple of four cannot be framed.
		return ErrUnrepresentable
	}
	words := n/4 - 1
	if words > 0xFFFF {
		return ErrTooLarge
	}
	w.b[start+2] = uint8(words >> 8)
	w.b[start+3] = uint8(words)
	return nil
}

// EncodeXRBlock returns the reference encoding of one XR report block.
func EncodeXRBlock(b XRBlock, o *EncOpts) ([]byte, error) {
	if o == nil {
		o = &EncOpts{}
	}
	w := &wbuf{}
	if err := w.xrBlock(&b, o); err != nil {
		return nil, err
	}
	return w.b, nil
}
