// Package refmodel is an independent, deliberately naive RTCP codec written from the
// specifications (RFC 3550, 4585, 5104, 6051, 3611, 8888, the transport-wide-cc and REMB
// drafts). It shares no code with pion/rtcp and uses int arithmetic only (no 16-bit
// intermediates). It is the oracle for the differential checks.
package refmodel

import (
	"encoding/hex"
	"encoding/json"
)

// Bytes is a byte string that prints as hex in JSON (evidence samples, replay files).
type Bytes []byte

func (b Bytes) MarshalJSON() ([]byte, error) { return json.Marshal(hex.EncodeToString(b)) }
func (b *Bytes) UnmarshalJSON(d []byte) error {
	var s string
	if err := json.Unmarshal(d, &s); err != nil {
		return err
	}
	x, err := hex.DecodeString(s)
	if err != nil {
		return err
	}
	*b = x
	return nil
}

type Kind string

const (
	KSR       Kind = "SR"
	KRR       Kind = "RR"
	KSDES     Kind = "SDES"
	KBYE      Kind = "BYE"
	KAPP      Kind = "APP"
	KNACK     Kind = "NACK"
	KRRR      Kind = "RRR"
	KTWCC     Kind = "TWCC"
	KCCFB     Kind = "CCFB"
	KPLI      Kind = "PLI"
	KSLI      Kind = "SLI"
	KFIR      Kind = "FIR"
	KREMB     Kind = "REMB"
	KXR       Kind = "XR"
	KRAW      Kind = "RAW"
	KCOMPOUND Kind = "COMPOUND"
)

// TypedKinds are the 14 kinds that have a row in the dispatch table.
var TypedKinds = []Kind{KSR, KRR, KSDES, KBYE, KAPP, KNACK, KRRR, KTWCC, KCCFB, KPLI, KSLI, KFIR, KREMB, KXR}

// Packet is a tagged union: exactly the field named by Kind is set.
type Packet struct {
	Kind     Kind
	SR       *SR      `json:",omitempty"`
	RR       *RR      `json:",omitempty"`
	SDES     *SDES    `json:",omitempty"`
	BYE      *BYE     `json:",omitempty"`
	APP      *APP     `json:",omitempty"`
	NACK     *NACK    `json:",omitempty"`
	RRR      *FB      `json:",omitempty"`
	PLI      *FB      `json:",omitempty"`
	SLI      *SLI     `json:",omitempty"`
	FIR      *FIR     `json:",omitempty"`
	REMB     *REMB    `json:",omitempty"`
	TWCC     *TWCC    `json:",omitempty"`
	CCFB     *CCFB    `json:",omitempty"`
	XR       *XR      `json:",omitempty"`
	RAW      Bytes    `json:",omitempty"`
	Compound []Packet `json:",omitempty"`
}

type RBlock struct {
	SSRC     uint32
	Fraction uint8
	Lost     uint32 // 24 bit on the wire
	LastSeq  uint32
	Jitter   uint32
	LSR      uint32
	DLSR     uint32
}

type SR struct {
	SSRC    uint32
	NTP     uint64
	RTP     uint32
	Packets uint32
	Octets  uint32
	Reports []RBlock
	Ext     Bytes
}

type RR struct {
	SSRC    uint32
	Reports []RBlock
	Ext     Bytes
}

type SDESItem struct {
	Type uint8
	Text Bytes
}

type SDESChunk struct {
	Source uint32
	Items  []SDESItem
}

type SDES struct {
	Chunks []SDESChunk
}

type BYE struct {
	Sources []uint32
	Reason  Bytes // empty = no reason (pion cannot represent an empty-but-present reason)
}

type APP struct {
	Subtype uint8
	SSRC    uint32
	Name    Bytes // 4 octets
	Data    Bytes
}

type NackPair struct {
	PID uint16
	BLP uint16
}

type NACK struct {
	Sender uint32
	Media  uint32
	Pairs  []NackPair
}

// FB is a feedback message without FCI (PLI, RRR).
type FB struct {
	Sender uint32
	Media  uint32
}

type SLIEntry struct {
	First   uint16 // 13 bit
	Number  uint16 // 13 bit
	Picture uint8  // 6 bit
}

type SLI struct {
	Sender  uint32
	Media   uint32
	Entries []SLIEntry
}

type FIREntry struct {
	SSRC uint32
	Seq  uint8
}

type FIR struct {
	Sender  uint32
	Media   uint32
	Entries []FIREntry
}

type REMB struct {
	Sender  uint32
	Bitrate float32
	SSRCs   []uint32
}

// TWCC symbols.
const (
	SymNotReceived = 0
	SymSmall       = 1
	SymLarge       = 2
	SymReserved    = 3
)

// TWCCChunk is one 16-bit packet status chunk.
type TWCCChunk struct {
	Vector  bool
	TwoBit  bool     `json:",omitempty"` // vector: symbol size
	Symbol  uint16   `json:",omitempty"` // run length: status symbol
	Run     uint16   `json:",omitempty"` // run length: 13 bit
	Symbols []uint16 `json:",omitempty"` // vector: 14 one-bit or 7 two-bit symbols (shorter lists are zero filled)
}

type TWCCDelta struct {
	Large bool
	// Micros is the delta in microseconds as pion carries it (250 us per tick).
	Micros int64
}

// TWCC mirrors the wire format: explicit chunks and deltas plus the caller-supplied header.
type TWCC struct {
	Padding     bool   // header P bit
	HdrLength   uint16 // header length word
	Sender      uint32
	Media       uint32
	BaseSeq     uint16
	StatusCount uint16
	RefTime     uint32 // 24 bit
	FbCount     uint8
	Chunks      []TWCCChunk
	Deltas      []TWCCDelta
}

type CCFBMetric struct {
	Received bool
	ECN      uint8  // 2 bit
	ATO      uint16 // 13 bit
}

type CCFBBlock struct {
	SSRC     uint32
	BeginSeq uint16
	Metrics  []CCFBMetric
}

type CCFB struct {
	Sender    uint32
	Blocks    []CCFBBlock
	Timestamp uint32
}

// XR block kinds.
const (
	XRLossRLE = 1
	XRDupRLE  = 2
	XRPRT     = 3
	XRRRT     = 4
	XRDLRR    = 5
	XRSS      = 6
	XRVoIP    = 7
)

type DLRRSub struct {
	SSRC   uint32
	LastRR uint32
	DLRR   uint32
}

type XRSS_ struct {
	L, D, J                                     bool
	ToH                                         uint8 // 2 bit
	SSRC                                        uint32
	BeginSeq, EndSeq                            uint16
	Lost, Dup                                   uint32
	MinJitter, MaxJitter, MeanJitter, DevJitter uint32
	MinTTL, MaxTTL, MeanTTL, DevTTL             uint8
}

type XRVoIP_ struct {
	SSRC                                            uint32
	LossRate, DiscardRate, BurstDensity, GapDensity uint8
	BurstDuration, GapDuration, RTT, EndSysDelay    uint16
	SignalLevel, NoiseLevel, RERL, Gmin             uint8
	RFactor, ExtRFactor, MOSLQ, MOSCQ, RXConfig     uint8
	JBNominal, JBMax, JBAbsMax                      uint16
}

// XRBlock is a tagged union selected by BT (1..7 typed, anything else opaque).
type XRBlock struct {
	BT uint8
	// RLE (1,2) and PRT (3)
	T        uint8    `json:",omitempty"` // 4 bit thinning
	SSRC     uint32   `json:",omitempty"`
	BeginSeq uint16   `json:",omitempty"`
	EndSeq   uint16   `json:",omitempty"`
	Chunks   []uint16 `json:",omitempty"`
	Times    []uint32 `json:",omitempty"`
	// RRT (4)
	NTP uint64 `json:",omitempty"`
	// DLRR (5)
	Subs []DLRRSub `json:",omitempty"`
	// SS (6), VoIP (7)
	SS   *XRSS_   `json:",omitempty"`
	VoIP *XRVoIP_ `json:",omitempty"`
	// Unknown
	TypeSpecific uint8 `json:",omitempty"`
	Body         Bytes `json:",omitempty"`
}

type XR struct {
	Sender uint32
	Blocks []XRBlock
}

// Dialect switches. Each is tied to one entry of known_findings.json and is inert unless
// that entry is listed as open: they describe behaviour of pion/rtcp that deviates from the
// specification but is pinned by the repository's own tests.
type Dialect struct {
	SLIPT205         bool // SLI is emitted/accepted under PT 205 instead of 206
	CCFBMinusOne     bool // CCFB num_reports field = n-1, read back as field+1 (0 => empty)
	CCFBRejectWrap   bool // CCFB block with begin_seq + field > 65535 is rejected
	REMBZeroMantissa bool // REMB mantissa 0 decodes to 2^(exp+23)
	APPPadFillCount  bool // every APP padding octet carries the padding count, not only the last one
}

var Strict = Dialect{}
