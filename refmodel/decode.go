package refmodel

import (
	"errors"
	"fmt"
)

var ErrMalformed = errors.New("refmodel: malformed")

func bad(f string, a ...interface{}) error {
	return fmt.Errorf("%w: %s", ErrMalformed, fmt.Sprintf(f, a...))
}

type rbuf struct {
	b   []byte
	pos int
	err error
}

func (r *rbuf) left() int { return len(r.b) - r.pos }
func (r *rbuf) need(n int) bool {
	if r.err != nil {
		return false
	}
	if r.left() < n {
		r.err = bad("need %d octets at %d, have %d", n, r.pos, r.left())
		return false
	}
	return true
}
func (r *rbuf) u8() uint8 {
	if !r.need(1) {
		return 0
	}
	v := r.b[r.pos]
	r.pos++
	return v
}
func (r *rbuf) u16() uint16 { return uint16(r.u8())<<8 | uint16(r.u8()) }
func (r *rbuf) u24() uint32 { return uint32(r.u8())<<16 | uint32(r.u16()) }
func (r *rbuf) u32() uint32 { return uint32(r.u16())<<16 | uint32(r.u16()) }
func (r *rbuf) u64() uint64 { return uint64(r.u32())<<32 | uint64(r.u32()) }
func (r *rbuf) take(n int) []byte {
	if !r.need(n) {
		return nil
	}
	v := append([]byte(nil), r.b[r.pos:r.pos+n]...)
	r.pos += n
	return v
}

// Hdr is the decoded common header.
type Hdr struct {
	Version uint8
	Padding bool
	Count   uint8
	PT      uint8
	Length  int // in words minus one
}

func ParseHdr(b []byte) (Hdr, error) {
	if len(b) < 4 {
		return Hdr{}, bad("header needs 4 octets, have %d", len(b))
	}
	return Hdr{
		Version: b[0] >> 6,
		Padding: b[0]&0x20 != 0,
		Count:   b[0] & 0x1f,
		PT:      b[1],
		Length:  int(b[2])<<8 | int(b[3]),
	}, nil
}

// SplitFrames cuts a datagram into frames at the length fields. Every frame must have
// version 2 and lie completely inside the datagram; an empty datagram is malformed.
func SplitFrames(b []byte) ([][]byte, error) {
	if len(b) == 0 {
		return nil, bad("empty datagram")
	}
	var out [][]byte
	for len(b) > 0 {
		h, err := ParseHdr(b)
		if err != nil {
			return nil, err
		}
		if h.Version != 2 {
			return nil, bad("version %d", h.Version)
		}
		n := 4 * (h.Length + 1)
		if n > len(b) {
			return nil, bad("frame of %d octets exceeds remaining %d", n, len(b))
		}
		out = append(out, b[:n])
		b = b[n:]
	}
	return out, nil
}

// Dispatch is the table of property C07: the kind registered for (PT, FMT), RAW otherwise.
func Dispatch(pt, count uint8, d Dialect) Kind {
	switch pt {
	case 200:
		return KSR
	case 201:
		return KRR
	case 202:
		return KSDES
	case 203:
		return KBYE
	case 204:
		return KAPP
	case 205:
		switch count {
		case 1:
			return KNACK
		case 5:
			return KRRR
		case 11:
			return KCCFB
		case 15:
			return KTWCC
		case 2:
			if d.SLIPT205 {
				return KRAW // pion: 205/2 is not in its table either; its own SLI output comes back raw
			}
		}
		return KRAW
	case 206:
		switch count {
		case 1:
			return KPLI
		case 2:
			return KSLI
		case 4:
			return KFIR
		case 15:
			return KREMB
		}
		return KRAW
	case 207:
		return KXR
	}
	return KRAW
}

// DecodeFrame decodes exactly one well-framed packet (len(b) == 4*(length+1)) as the given kind.
func DecodeFrame(b []byte, k Kind, d Dialect) (Packet, error) {
	return decodeFrame(b, k, d, false)
}

// DecodeFrameLenient is DecodeFrame as a tolerant receiver would apply it: octets whose value
// the RFC prescribes for the sender but which carry no information (the alignment padding after
// an SDES chunk's terminator, octets after the last SDES chunk, the always-zero media SSRC of
// REMB) are not inspected. What it rejects is a frame whose own counts and
// lengths contradict each other or the frame's size.
func DecodeFrameLenient(b []byte, k Kind, d Dialect) (Packet, error) {
	return decodeFrame(b, k, d, true)
}

func decodeFrame(b []byte, k Kind, d Dialect, lenient bool) (Packet, error) {
	h, err := ParseHdr(b)
	if err != nil {
		return Packet{}, err
	}
	if h.Version != 2 {
		return Packet{}, bad("version %d", h.Version)
	}
	if 4*(h.Length+1) != len(b) {
		return Packet{}, bad("frame length %d != header %d", len(b), 4*(h.Length+1))
	}
	r := &rbuf{b: b, pos: 4}
	p := Packet{Kind: k}
	switch k {
	case KSR:
		v := &SR{SSRC: r.u32(), NTP: r.u64(), RTP: r.u32(), Packets: r.u32(), Octets: r.u32()}
		for i := 0; i < int(h.Count); i++ {
			v.Reports = append(v.Reports, r.rblock())
		}
		v.Ext = r.take(r.left())
		p.SR = v
	case KRR:
		v := &RR{SSRC: r.u32()}
		for i := 0; i < int(h.Count); i++ {
			v.Reports = append(v.Reports, r.rblock())
		}
		v.Ext = r.take(r.left())
		p.RR = v
	case KSDES:
		v := &SDES{}
		for i := 0; i < int(h.Count); i++ {
			c := SDESChunk{Source: r.u32()}
			for {
				t := r.u8()
				if r.err != nil || t == 0 {
					break
				}
				n := int(r.u8())
				c.Items = append(c.Items, SDESItem{Type: t, Text: r.take(n)})
			}
			for r.err == nil && r.pos%4 != 0 {
				if r.u8() != 0 && !lenient {
					r.err = bad("non-null SDES chunk padding")
				}
			}
			v.Chunks = append(v.Chunks, c)
		}
		if r.err == nil && r.left() != 0 && !lenient {
			r.err = bad("%d surplus octets after %d SDES chunks", r.left(), h.Count)
		}
		p.SDES = v
	case KBYE:
		v := &BYE{}
		for i := 0; i < int(h.Count); i++ {
			v.Sources = append(v.Sources, r.u32())
		}
		if r.err == nil && r.left() > 0 {
			n := int(r.u8())
			v.Reason = r.take(n)
		}
		p.BYE = v
	case KAPP:
		v := &APP{Subtype: h.Count, SSRC: r.u32(), Name: r.take(4)}
		pad := 0
		if h.Padding && r.err == nil {
			pad = int(b[len(b)-1])
			if pad == 0 || pad > r.left() {
				r.err = bad("padding count %d", pad)
			}
		}
		if r.err == nil {
			v.Data = r.take(r.left() - pad)
		}
		p.APP = v
	case KNACK:
		v := &NACK{Sender: r.u32(), Media: r.u32()}
		for r.err == nil && r.left() > 0 {
			v.Pairs = append(v.Pairs, NackPair{PID: r.u16(), BLP: r.u16()})
		}
		p.NACK = v
	case KRRR, KPLI:
		v := &FB{Sender: r.u32(), Media: r.u32()}
		if k == KRRR {
			p.RRR = v
		} else {
			p.PLI = v
		}
	case KSLI:
		v := &SLI{Sender: r.u32(), Media: r.u32()}
		for r.err == nil && r.left() > 0 {
			x := r.u32()
			v.Entries = append(v.Entries, SLIEntry{First: uint16(x >> 19), Number: uint16(x >> 6 & 0x1FFF), Picture: uint8(x & 0x3F)})
		}
		p.SLI = v
	case KFIR:
		v := &FIR{Sender: r.u32(), Media: r.u32()}
		for r.err == nil && r.left() > 0 {
			e := FIREntry{SSRC: r.u32(), Seq: r.u8()}
			r.u24()
			v.Entries = append(v.Entries, e)
		}
		p.FIR = v
	case KREMB:
		v := &REMB{Sender: r.u32()}
		if r.u32() != 0 && r.err == nil && !lenient {
			r.err = bad("REMB media SSRC not 0")
		}
		if string(r.take(4)) != "REMB" && r.err == nil {
			r.err = bad("REMB identifier")
		}
		n := int(r.u8())
		x := r.u24()
		v.Bitrate = REMBValue(x>>18, x&0x3FFFF, d)
		for i := 0; i < n; i++ {
			v.SSRCs = append(v.SSRCs, r.u32())
		}
		if r.err == nil && r.left() != 0 {
			r.err = bad("REMB surplus")
		}
		p.REMB = v
	case KTWCC:
		v, err := DecodeTWCC(b)
		if err != nil {
			return Packet{}, err
		}
		p.TWCC = v
		return p, nil
	case KCCFB:
		v := &CCFB{Sender: r.u32()}
		for r.err == nil && r.left() > 4 {
			blk := CCFBBlock{SSRC: r.u32(), BeginSeq: r.u16()}
			f := int(r.u16())
			n := f
			if d.CCFBMinusOne && f > 0 {
				n = f + 1
			}
			if d.CCFBRejectWrap && int(blk.BeginSeq)+f > 65535 && r.err == nil {
				r.err = bad("CCFB sequence wrap (dialect)")
			}
			for i := 0; i < n && r.err == nil; i++ {
				mw := r.u16()
				m := CCFBMetric{Received: mw&0x8000 != 0}
				if m.Received {
					m.ECN = uint8(mw >> 13 & 3)
					m.ATO = mw & 0x1FFF
				}
				blk.Metrics = append(blk.Metrics, m)
			}
			if n%2 == 1 {
				r.u16()
			}
			v.Blocks = append(v.Blocks, blk)
		}
		v.Timestamp = r.u32()
		if r.err == nil && r.left() != 0 {
			r.err = bad("CCFB surplus")
		}
		p.CCFB = v
	case KXR:
		v := &XR{Sender: r.u32()}
		for r.err == nil && r.left() > 0 {
			blk, err := r.xrBlock()
			if err != nil {
				return Packet{}, err
			}
			v.Blocks = append(v.Blocks, blk)
		}
		p.XR = v
	case KRAW:
		p.RAW = append([]byte(nil), b...)
	default:
		return Packet{}, fmt.Errorf("refmodel: cannot decode kind %q", k)
	}
	if r.err != nil {
		return Packet{}, r.err
	}
	return p, nil
}

func (r *rbuf) rblock() RBlock {
	return RBlock{SSRC: r.u32(), Fraction: r.u8(), Lost: r.u24(), LastSeq: r.u32(), Jitter: r.u32(), LSR: r.u32(), DLSR: r.u32()}
}

func (r *rbuf) xrBlock() (XRBlock, error) {
	b := XRBlock{BT: r.u8()}
	ts := r.u8()
	words := int(r.u16())
	if r.err != nil {
		return b, r.err
	}
	if !r.need(4 * words) {
		return b, r.err
	}
	body := &rbuf{b: r.b[:r.pos+4*words], pos: r.pos}
	r.pos += 4 * words
	switch b.BT {
	case XRLossRLE, XRDupRLE, XRPRT:
		b.T = ts & 0x0F
		b.SSRC = body.u32()
		b.BeginSeq = body.u16()
		b.EndSeq = body.u16()
		if b.BT == XRPRT {
			for body.err == nil && body.left() > 0 {
				b.Times = append(b.Times, body.u32())
			}
		} else {
			for body.err == nil && body.left() > 0 {
				b.Chunks = append(b.Chunks, body.u16())
			}
		}
	case XRRRT:
		b.NTP = body.u64()
	case XRDLRR:
		for body.err == nil && body.left() > 0 {
			b.Subs = append(b.Subs, DLRRSub{SSRC: body.u32(), LastRR: body.u32(), DLRR: body.u32()})
		}
	case XRSS:
		s := &XRSS_{L: ts&0x80 != 0, D: ts&0x40 != 0, J: ts&0x20 != 0, ToH: ts >> 3 & 3}
		s.SSRC = body.u32()
		s.BeginSeq = body.u16()
		s.EndSeq = body.u16()
		s.Lost = body.u32()
		s.Dup = body.u32()
		s.MinJitter = body.u32()
		s.MaxJitter = body.u32()
		s.MeanJitter = body.u32()
		s.DevJitter = body.u32()
		s.MinTTL = body.u8()
		s.MaxTTL = body.u8()
		s.MeanTTL = body.u8()
		s.DevTTL = body.u8()
		b.SS = s
	case XRVoIP:
		m := &XRVoIP_{}
		m.SSRC = body.u32()
		m.LossRate = body.u8()
		m.DiscardRate = body.u8()
		m.BurstDensity = body.u8()
		m.GapDensity = body.u8()
		m.BurstDuration = body.u16()
		m.GapDuration = body.u16()
		m.RTT = body.u16()
		m.EndSysDelay = body.u16()
		m.SignalLevel = body.u8()
		m.NoiseLevel = body.u8()
		m.RERL = body.u8()
		m.Gmin = body.u8()
		m.RFactor = body.u8()
		m.ExtRFactor = body.u8()
		m.MOSLQ = body.u8()
		m.MOSCQ = body.u8()
		m.RXConfig = body.u8()
		body.u8()
		m.JBNominal = body.u16()
		m.JBMax = body.u16()
		m.JBAbsMax = body.u16()
		b.VoIP = m
	default:
		b.TypeSpecific = ts
		b.Body = body.take(body.left())
	}
	return b, body.err
}

// UnpackChunk is the specification's reading of a 16-bit TWCC status chunk.
func UnpackChunk(w uint16) TWCCChunk {
	if w&0x8000 == 0 {
		return TWCCChunk{Symbol: w >> 13 & 3, Run: w & 0x1FFF}
	}
	c := TWCCChunk{Vector: true}
	if w&0x4000 != 0 {
		c.TwoBit = true
		for i := 0; i < 7; i++ {
			c.Symbols = append(c.Symbols, w>>uint(12-2*i)&3)
		}
		return c
	}
	for i := 0; i < 14; i++ {
		c.Symbols = append(c.Symbols, w>>uint(13-i)&1)
	}
	return c
}

// ExpandChunks returns the per-packet status symbols described by the chunks: run lengths
// clipped to what remains of count, vector symbols as written (all 7/14 of them when
// clipVector is false, clipped to count when true).
func ExpandChunks(chunks []TWCCChunk, count int, clipVector bool) []uint16 {
	var out []uint16
	for _, c := range chunks {
		rem := count - len(out)
		if !c.Vector {
			n := int(c.Run)
			if n > rem {
				n = rem
			}
			for i := 0; i < n; i++ {
				out = append(out, c.Symbol)
			}
			continue
		}
		syms := c.Symbols
		want := 14
		if c.TwoBit {
			want = 7
		}
		for i := 0; i < want; i++ {
			if clipVector && len(out) >= count {
				break
			}
			var s uint16
			if i < len(syms) {
				s = syms[i]
			}
			out = append(out, s)
		}
	}
	return out
}

// DecodeTWCC is the independent expansion of a transport-wide-cc feedback packet described
// in property C13: chunks are walked until the expanded status total reaches the status
// count (run lengths clipped, vector symbols as written); one delta per symbol marked
// small/large, read at the cursor that starts right after the last chunk; everything must
// lie inside the declared length. Trailing octets after the deltas are padding.
func DecodeTWCC(b []byte) (*TWCC, error) {
	h, err := ParseHdr(b)
	if err != nil {
		return nil, err
	}
	total := 4 * (h.Length + 1)
	if total > len(b) {
		return nil, bad("TWCC declared %d > have %d", total, len(b))
	}
	if total < 20 {
		return nil, bad("TWCC declared length %d < 20", total)
	}
	r := &rbuf{b: b[:total], pos: 4}
	v := &TWCC{Padding: h.Padding, HdrLength: uint16(h.Length)}
	v.Sender = r.u32()
	v.Media = r.u32()
	v.BaseSeq = r.u16()
	v.StatusCount = r.u16()
	v.RefTime = r.u24()
	v.FbCount = r.u8()
	processed := 0
	var syms []uint16
	for processed < int(v.StatusCount) {
		w := r.u16()
		if r.err != nil {
			return nil, r.err
		}
		c := UnpackChunk(w)
		v.Chunks = append(v.Chunks, c)
		if !c.Vector {
			n := int(c.Run)
			if rem := int(v.StatusCount) - processed; n > rem {
				n = rem
			}
			for i := 0; i < n; i++ {
				syms = append(syms, c.Symbol)
			}
			processed += n
		} else {
			syms = append(syms, c.Symbols...)
			processed += len(c.Symbols)
		}
	}
	for _, s := range syms {
		switch s {
		case SymSmall:
			v.Deltas = append(v.Deltas, TWCCDelta{Micros: 250 * int64(r.u8())})
		case SymLarge:
			v.Deltas = append(v.Deltas, TWCCDelta{Large: true, Micros: 250 * int64(int16(r.u16()))})
		}
		if r.err != nil {
			return nil, r.err
		}
	}
	return v, nil
}

// DecodeDatagram splits and decodes every frame by the dispatch table.
func DecodeDatagram(b []byte, d Dialect) ([]Packet, error) {
	frames, err := SplitFrames(b)
	if err != nil {
		return nil, err
	}
	var out []Packet
	for _, f := range frames {
		h, _ := ParseHdr(f)
		p, err := DecodeFrame(f, Dispatch(h.PT, h.Count, d), d)
		if err != nil {
			return nil, err
		}
		out = append(out, p)
	}
	return out, nil
}

// DestSSRC is the list property C10 specifies.
func DestSSRC(p Packet) []uint32 {
	var out []uint32
	switch p.Kind {
	case KSR:
		for _, r := range p.SR.Reports {
			out = append(out, r.SSRC)
		}
		out = append(out, p.SR.SSRC)
	case KRR:
		for _, r := range p.RR.Reports {
			out = append(out, r.SSRC)
		}
	case KSDES:
		for _, c := range p.SDES.Chunks {
			out = append(out, c.Source)
		}
	case KBYE:
		out = append(out, p.BYE.Sources...)
	case KAPP:
		out = append(out, p.APP.SSRC)
	case KNACK:
		out = append(out, p.NACK.Media)
	case KRRR:
		out = append(out, p.RRR.Media)
	case KPLI:
		out = append(out, p.PLI.Media)
	case KSLI:
		out = append(out, p.SLI.Media)
	case KTWCC:
		out = append(out, p.TWCC.Media)
	case KFIR:
		for _, e := range p.FIR.Entries {
			out = append(out, e.SSRC)
		}
	case KREMB:
		out = append(out, p.REMB.SSRCs...)
	case KCCFB:
		for _, b := range p.CCFB.Blocks {
			out = append(out, b.SSRC)
		}
	case KXR:
		out = append(out, p.XR.Sender)
		for _, b := range p.XR.Blocks {
			switch b.BT {
			case XRLossRLE, XRDupRLE, XRPRT:
				out = append(out, b.SSRC)
			case XRSS:
				out = append(out, b.SS.SSRC)
			case XRVoIP:
				out = append(out, b.VoIP.SSRC)
			case XRDLRR:
				for _, s := range b.Subs {
					out = append(out, s.SSRC)
				}
			}
		}
	case KCOMPOUND:
		if len(p.Compound) > 0 {
			return DestSSRC(p.Compound[0])
		}
	}
	return out
}

// CompoundAccept is the RFC 3550 section 6.1 compound grammar of property C11: the first
// packet is SR or RR, and the first later packet that is not an RR is an SDES with a CNAME.
func CompoundAccept(ps []Packet) bool {
	if len(ps) == 0 {
		return false
	}
	if ps[0].Kind != KSR && ps[0].Kind != KRR {
		return false
	}
	for _, p := range ps[1:] {
		if p.Kind == KRR {
			continue
		}
		if p.Kind != KSDES {
			return false
		}
		_, ok := FirstCNAME(p.SDES)
		return ok
	}
	return false
}

// FirstCNAME returns the text of the first CNAME item (type 1) of an SDES.
func FirstCNAME(s *SDES) ([]byte, bool) {
	for _, c := range s.Chunks {
		for _, it := range c.Items {
			if it.Type == 1 {
				return it.Text, true
			}
		}
	}
	return nil, false
}
