// Package harness is the run-time support shared by all checks: configuration from the
// driver, per-run statistics (evaluations, distinct non-trivial cases, class histogram,
// samples, cases attributed to known findings), known-finding dialects, and the failure /
// replay file protocol.
package harness

import (
	"encoding/binary"
	"encoding/json"
	"fmt"
	"hash/fnv"
	"os"
	"path/filepath"
	"sort"
	"strconv"
	"strings"
	"sync"
	"time"

	"verif/refmodel"
)

// Config comes from the environment set by cmd/vcheck.
type Config struct {
	Prop    string
	Tier    string // quick | thorough
	Seed    int64
	Shard   int
	NShards int
	OutDir  string
	Replay  string // path of a replay file (replay mode)
	Mode    string // search | witness | replay | selftest
}

var Cfg Config

func envInt(name string, def int64) int64 {
	if v := os.Getenv(name); v != "" {
		if n, err := strconv.ParseInt(v, 10, 64); err == nil {
			return n
		}
	}
	return def
}

// Init reads the environment. It is safe to call more than once.
func Init() {
	Cfg = Config{
		Prop:    os.Getenv("VCHECK_PROP"),
		Tier:    os.Getenv("VCHECK_TIER"),
		Seed:    envInt("VCHECK_SEED", 1),
		Shard:   int(envInt("VCHECK_SHARD", 0)),
		NShards: int(envInt("VCHECK_NSHARDS", 1)),
		OutDir:  os.Getenv("VCHECK_OUT"),
		Replay:  os.Getenv("VCHECK_REPLAY"),
		Mode:    os.Getenv("VCHECK_MODE"),
	}
	if Cfg.Tier == "" {
		Cfg.Tier = "quick"
	}
	if Cfg.Mode == "" {
		Cfg.Mode = "search"
	}
	if Cfg.NShards < 1 {
		Cfg.NShards = 1
	}
	loadKnown()
	start = time.Now()
}

var start time.Time

func Thorough() bool { return Cfg.Tier == "thorough" }

// Scale picks the case count for the tier.
func Scale(quick, thorough int) int {
	if v := envInt("VCHECK_CASES", 0); v > 0 {
		return int(v)
	}
	if Thorough() {
		return thorough
	}
	return quick
}

// ---------------------------------------------------------------------------------
// Known findings and dialects

type Finding struct {
	ID         string          `json:"id"`
	Properties []string        `json:"properties"`
	Status     string          `json:"status"` // open | fixed
	What       string          `json:"what"`
	Record     string          `json:"record,omitempty"`
	Commit     string          `json:"commit,omitempty"`
	Sub        string          `json:"sub,omitempty"`     // sub-check whose oracle the witness is run through
	Witness    json.RawMessage `json:"witness,omitempty"` // replay case
}

type knownFile struct {
	Findings []Finding `json:"findings"`
}

var (
	allFindings []Finding
	openIDs     []string // open findings that list the current property
)

func loadKnown() {
	allFindings, openIDs = nil, nil
	path := os.Getenv("VCHECK_KNOWN")
	if path == "" {
		path = "/verif/known_findings.json"
	}
	data, err := os.ReadFile(path)
	if err != nil {
		return
	}
	var kf knownFile
	if err := json.Unmarshal(data, &kf); err != nil {
		fmt.Fprintf(os.Stderr, "harness: cannot parse %s: %v\n", path, err)
		os.Exit(2)
	}
	allFindings = kf.Findings
	for _, f := range kf.Findings {
		if f.Status != "open" {
			continue
		}
		for _, p := range f.Properties {
			if p == Cfg.Prop || Cfg.Prop == "" {
				openIDs = append(openIDs, f.ID)
				break
			}
		}
	}
	sort.Strings(openIDs)
}

// OpenFindings returns the open findings that list the current property.
func OpenFindings() []Finding {
	var out []Finding
	for _, f := range allFindings {
		for _, id := range openIDs {
			if f.ID == id {
				out = append(out, f)
			}
		}
	}
	return out
}

// Dialect is a set of known-finding ids whose pinned behaviour the oracle should expect
// instead of the specified one. The empty dialect is the specification.
type Dialect map[string]bool

func (d Dialect) Has(id string) bool { return d[id] }

// Ref converts to the reference model's dialect switches.
func (d Dialect) Ref() refmodel.Dialect {
	return refmodel.Dialect{
		SLIPT205:         d["sli-pt-205"],
		CCFBMinusOne:     d["ccfb-num-reports-minus-one"],
		CCFBRejectWrap:   d["ccfb-rejects-seq-wrap"],
		REMBZeroMantissa: d["remb-zero-mantissa"],
		APPPadFillCount:  d["app-padding-octets-carry-count"],
	}
}

func (d Dialect) String() string {
	var ids []string
	for k := range d {
		ids = append(ids, k)
	}
	sort.Strings(ids)
	return strings.Join(ids, "+")
}

// AllOpen is the dialect with every open finding of this property switched on.
func AllOpen() Dialect {
	d := Dialect{}
	for _, id := range openIDs {
		d[id] = true
	}
	return d
}

// ---------------------------------------------------------------------------------
// Statistics

type sample struct {
	H    uint64
	Sub  string
	Case json.RawMessage
}

type subStats struct {
	Evaluations int64  `json:"evaluations"`
	Exhaustive  bool   `json:"exhaustive,omitempty"`
	Space       string `json:"space,omitempty"`
}

type Stats struct {
	mu            sync.Mutex
	Evaluations   int64
	DistinctCount int64               // distinct-by-construction non-trivial cases (enumerators)
	hashes        map[uint64]struct{} // distinct non-trivial cases (random generation)
	Classes       map[string]int64
	Known         map[string]int64
	Subs          map[string]*subStats
	samples       []sample
	Failed        int
	Notes         []string
}

var S = &Stats{hashes: map[uint64]struct{}{}, Classes: map[string]int64{}, Known: map[string]int64{}, Subs: map[string]*subStats{}}

const maxHashes = 6_000_000
const maxSamples = 8

func (s *Stats) sub(name string) *subStats {
	x := s.Subs[name]
	if x == nil {
		x = &subStats{}
		s.Subs[name] = x
	}
	return x
}

// Eval counts n evaluations of sub-check sub.
func Eval(sub string, n int64) {
	S.mu.Lock()
	S.Evaluations += n
	S.sub(sub).Evaluations += n
	S.mu.Unlock()
}

// Exhaustive marks a sub-check as having enumerated its (described) finite space completely.
func Exhaustive(sub, space string) {
	S.mu.Lock()
	x := S.sub(sub)
	x.Exhaustive = true
	x.Space = space
	S.mu.Unlock()
}

// Class adds n to a histogram bucket.
func Class(name string, n int64) {
	S.mu.Lock()
	S.Classes[name] += n
	S.mu.Unlock()
}

// NonTrivialHash records one non-trivial case by the hash of its canonical serialisation.
func NonTrivialHash(h uint64) {
	S.mu.Lock()
	if len(S.hashes) < maxHashes {
		S.hashes[h] = struct{}{}
	}
	S.mu.Unlock()
}

// NonTrivialDistinct adds n cases that are non-trivial and distinct by construction (enumerators).
func NonTrivialDistinct(n int64) {
	S.mu.Lock()
	S.DistinctCount += n
	S.mu.Unlock()
}

// Known attributes one case to a known finding (the case was re-judged under its dialect).
func KnownHit(id string) {
	S.mu.Lock()
	S.Known[id]++
	S.mu.Unlock()
}

func Note(format string, a ...interface{}) {
	S.mu.Lock()
	S.Notes = append(S.Notes, fmt.Sprintf(format, a...))
	S.mu.Unlock()
}

// Hash is FNV-1a over the JSON form of v.
func Hash(v interface{}) uint64 {
	b, _ := json.Marshal(v)
	return HashBytes(b)
}

func HashBytes(b []byte) uint64 {
	h := fnv.New64a()
	h.Write(b)
	return h.Sum64()
}

// Sample offers a case to the deterministic reservoir (keeps the cases with the smallest hashes).
func Sample(sub string, h uint64, v interface{}) {
	S.mu.Lock()
	defer S.mu.Unlock()
	if len(S.samples) >= maxSamples && h >= S.samples[len(S.samples)-1].H {
		return
	}
	for _, x := range S.samples {
		if x.H == h {
			return
		}
	}
	b, err := json.Marshal(v)
	if err != nil {
		return
	}
	if len(b) > 3000 {
		b, _ = json.Marshal(map[string]interface{}{"truncated_json_prefix": string(b[:3000]), "full_len": len(b)})
	}
	S.samples = append(S.samples, sample{H: h, Sub: sub, Case: b})
	sort.Slice(S.samples, func(i, j int) bool { return S.samples[i].H < S.samples[j].H })
	if len(S.samples) > maxSamples {
		S.samples = S.samples[:maxSamples]
	}
}

// Record is the usual per-case bookkeeping: count it, and if non-trivial remember its hash and offer it as a sample.
func Record(sub string, c interface{}, nontrivial bool, classes ...string) {
	Eval(sub, 1)
	for _, cl := range classes {
		Class(cl, 1)
	}
	if nontrivial {
		h := Hash(c)
		NonTrivialHash(h)
		Sample(sub, h, c)
	}
}

type statsFile struct {
	Prop          string               `json:"prop"`
	Shard         int                  `json:"shard"`
	Evaluations   int64                `json:"evaluations"`
	DistinctCount int64                `json:"distinct_count"`
	HashCount     int                  `json:"hash_count"`
	Classes       map[string]int64     `json:"classes"`
	Known         map[string]int64     `json:"known"`
	Subs          map[string]*subStats `json:"subs"`
	Samples       []sample             `json:"samples"`
	Notes         []string             `json:"notes"`
	WallS         float64              `json:"wall_s"`
	Failed        int                  `json:"failed"`
}

// Flush writes stats-<shard>.json and hashes-<shard>.bin into the output directory.
func Flush() {
	if Cfg.OutDir == "" {
		return
	}
	S.mu.Lock()
	defer S.mu.Unlock()
	sf := statsFile{Prop: Cfg.Prop, Shard: Cfg.Shard, Evaluations: S.Evaluations, DistinctCount: S.DistinctCount, HashCount: len(S.hashes),
		Classes: S.Classes, Known: S.Known, Subs: S.Subs, Samples: S.samples, Notes: S.Notes, WallS: time.Since(start).Seconds(), Failed: S.Failed}
	b, _ := json.MarshalIndent(sf, "", " ")
	_ = os.WriteFile(filepath.Join(Cfg.OutDir, fmt.Sprintf("stats-%d.json", Cfg.Shard)), b, 0o644)
	hb := make([]byte, 0, 8*len(S.hashes))
	for h := range S.hashes {
		hb = binary.LittleEndian.AppendUint64(hb, h)
	}
	_ = os.WriteFile(filepath.Join(Cfg.OutDir, fmt.Sprintf("hashes-%d.bin", Cfg.Shard)), hb, 0o644)
}

// ---------------------------------------------------------------------------------
// Failure protocol

// TB is what both *testing.T and *rapid.T offer.
type TB interface {
	Fatalf(format string, args ...interface{})
	Logf(format string, args ...interface{})
}

// FailFile is the replay payload.
type FailFile struct {
	Prop    string          `json:"prop"`
	Sub     string          `json:"sub"`
	Message string          `json:"message"`
	Case    json.RawMessage `json:"case"`
}

// WriteFail (over)writes fail-<shard>.json. rapid's last invocation after shrinking is the
// minimal case, so the file left behind is the minimal reproduction.
func WriteFail(sub string, c interface{}, msg string) {
	S.mu.Lock()
	S.Failed++
	S.mu.Unlock()
	if Cfg.OutDir == "" {
		return
	}
	cb, _ := json.Marshal(c)
	ff := FailFile{Prop: Cfg.Prop, Sub: sub, Message: msg, Case: cb}
	b, _ := json.MarshalIndent(ff, "", " ")
	_ = os.WriteFile(filepath.Join(Cfg.OutDir, fmt.Sprintf("fail-%d.json", Cfg.Shard)), b, 0o644)
}

// WriteFailIfNone writes the fail file only if this run has not written one yet (used for
// failures that are detected outside an oracle, so that a precise replay case is never overwritten).
func WriteFailIfNone(sub string, c interface{}, msg string) {
	S.mu.Lock()
	n := S.Failed
	S.mu.Unlock()
	if n == 0 {
		WriteFail(sub, c, msg)
	}
}

// ---------------------------------------------------------------------------------
// Sub-checks

type replayFn func(raw json.RawMessage, d Dialect) error

var registry = map[string]replayFn{}

// Sub is one sub-check: a case type and an oracle judged under a dialect.
type Sub[C any] struct {
	Name   string
	Oracle func(c C, d Dialect) error
}

// NewSub registers the oracle for replay and witness runs.
func NewSub[C any](name string, oracle func(c C, d Dialect) error) *Sub[C] {
	s := &Sub[C]{Name: name, Oracle: oracle}
	registry[name] = func(raw json.RawMessage, d Dialect) error {
		var c C
		if err := json.Unmarshal(raw, &c); err != nil {
			return fmt.Errorf("replay: cannot parse case: %w", err)
		}
		return Guard(func() error { return s.Oracle(c, d) })
	}
	return s
}

// Judge evaluates the oracle under the specification; if that fails, under the dialect of
// each open known finding (alone, then all together). A case explained by a listed finding is
// counted under it and passes; anything else fails the check.
func (s *Sub[C]) Judge(c C) (err error, known string) {
	run := func(d Dialect) error { return Guard(func() error { return s.Oracle(c, d) }) }
	err = run(Dialect{})
	if err == nil {
		return nil, ""
	}
	for _, id := range openIDs {
		if run(Dialect{id: true}) == nil {
			return nil, id
		}
	}
	if len(openIDs) > 1 {
		if run(AllOpen()) == nil {
			return nil, "combination:" + AllOpen().String()
		}
	}
	return err, ""
}

// Check judges a case and fails t (after writing the replay file) on a violation.
func (s *Sub[C]) Check(t TB, c C) {
	err, known := s.Judge(c)
	if known != "" {
		KnownHit(known)
		return
	}
	if err != nil {
		WriteFail(s.Name, c, err.Error())
		t.Fatalf("[%s] %v", s.Name, err)
	}
}

// Replay re-executes a stored case without rapid. Returns the oracle error (nil = passes now).
func Replay(path string) (ff FailFile, err error, known string) {
	data, rerr := os.ReadFile(path)
	if rerr != nil {
		return ff, rerr, ""
	}
	if jerr := json.Unmarshal(data, &ff); jerr != nil {
		return ff, jerr, ""
	}
	fn := registry[ff.Sub]
	if fn == nil {
		return ff, fmt.Errorf("replay: unknown sub-check %q", ff.Sub), ""
	}
	err = fn(ff.Case, Dialect{})
	if err == nil {
		return ff, nil, ""
	}
	for _, id := range openIDs {
		if fn(ff.Case, Dialect{id: true}) == nil {
			return ff, nil, id
		}
	}
	if fn(ff.Case, AllOpen()) == nil {
		return ff, nil, "combination"
	}
	return ff, err, ""
}

// RunWitnesses executes the stored witness of every open finding of this property through
// its oracle: it must fail under the specification and pass under the finding's dialect.
// Returns the lines to print.
func RunWitnesses() (lines []string, problems []string) {
	for _, f := range OpenFindings() {
		if f.Sub == "" || len(f.Witness) == 0 {
			lines = append(lines, fmt.Sprintf("KNOWN-FINDING: property=%s %s: %s", Cfg.Prop, f.ID, f.What))
			continue
		}
		fn := registry[f.Sub]
		if fn == nil {
			// the witness belongs to another property's sub-check; still listed
			lines = append(lines, fmt.Sprintf("KNOWN-FINDING: property=%s %s: %s", Cfg.Prop, f.ID, f.What))
			continue
		}
		strictErr := fn(f.Witness, Dialect{})
		dialectErr := fn(f.Witness, Dialect{f.ID: true})
		switch {
		case strictErr != nil && dialectErr == nil:
			lines = append(lines, fmt.Sprintf("KNOWN-FINDING: property=%s %s: %s [witness reproduces: %s]", Cfg.Prop, f.ID, f.What, oneLine(strictErr.Error())))
		case strictErr == nil:
			lines = append(lines, fmt.Sprintf("NOTE: property=%s listed finding %s no longer reproduces on its witness (fixed?)", Cfg.Prop, f.ID))
		default:
			problems = append(problems, fmt.Sprintf("witness of %s fails even under its own dialect: %v", f.ID, dialectErr))
		}
	}
	return
}

func oneLine(s string) string {
	s = strings.ReplaceAll(s, "\n", " | ")
	if len(s) > 300 {
		s = s[:300] + "..."
	}
	return s
}
