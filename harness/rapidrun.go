package harness

import (
	"flag"
	"fmt"
	"os"
	"runtime/debug"
	"strconv"
	"strings"
	"testing"

	"pgregory.net/rapid"
)

// SeedFor derives the rapid seed for a sub-check from VERIF_SEED, the shard and a salt.
// rapid treats 0 as "random", so 0 is never returned.
func SeedFor(salt uint64) uint64 {
	x := uint64(Cfg.Seed)*1_000_003 + uint64(Cfg.Shard)*7919 + salt*104_729
	return 1 + x%((1<<63)-2)
}

// RapidCheck runs prop n times under rapid with a seed that is a pure function of
// VERIF_SEED, shard and salt. Nothing is written to testdata/rapid.
func RapidCheck(t *testing.T, n int, salt uint64, prop func(t *rapid.T)) {
	t.Helper()
	_ = flag.Set("rapid.checks", strconv.Itoa(n))
	_ = flag.Set("rapid.seed", strconv.FormatUint(SeedFor(salt), 10))
	_ = flag.Set("rapid.nofailfile", "true")
	_ = flag.Set("rapid.shrinktime", "8s")
	rapid.Check(t, func(rt *rapid.T) {
		defer func() {
			if r := recover(); r != nil {
				if strings.HasPrefix(fmt.Sprintf("%T", r), "rapid.") {
					panic(r) // rapid's own control flow (Fatalf, assumptions)
				}
				// a panic that escaped every oracle: report it rather than crash; if its stack
				// runs through pion/rtcp it is the code under test that panicked
				reportUncaught(r)
				panic(r)
			}
		}()
		if os.Getenv("VCHECK_SELFTEST_PANIC") == "harness" {
			panic("self-test: a panic raised by the harness, not by the code under test")
		}
		prop(rt)
	})
}

// Uncaught is deferred at the top of every TestCxx: a panic in an enumeration loop becomes a
// reported failure (with a replay file holding the stack) instead of a dead worker.
func Uncaught(t *testing.T) {
	if r := recover(); r != nil {
		reportUncaught(r)
		t.Fatalf("uncaught panic: %v", r)
	}
}

// reportUncaught files a panic that escaped every oracle. Only a panic whose stack runs through
// the code under test is a finding; one raised by the generators or the harness itself (a bad
// range in a generator, rapid giving up on an example) says nothing about pion/rtcp: it is
// printed as INCONCLUSIVE, which the driver turns into exit status 2, never into a VIOLATION.
func reportUncaught(r interface{}) {
	stack := string(debug.Stack())
	if !strings.Contains(stack, "github.com/pion/rtcp.") {
		fmt.Printf("INCONCLUSIVE harness error (no frame of the code under test on the stack): %v\n%s\n", r, trimStack([]byte(stack)))
		return
	}
	WriteFailIfNone("uncaught-panic", map[string]string{"note": "not replayable: the panic happened outside an oracle; see message"},
		fmt.Sprintf("PANIC outside an oracle: %v\n%s", r, trimStack([]byte(stack))))
}

// Guard runs f and converts a panic into an error (with the stack), so that a panic inside
// the code under test is reported through the oracle rather than crashing the process.
func Guard(f func() error) (err error) {
	defer func() {
		if r := recover(); r != nil {
			err = fmt.Errorf("PANIC: %v\n%s", r, trimStack(debug.Stack()))
		}
	}()
	return f()
}

func trimStack(b []byte) string {
	if len(b) > 2500 {
		b = b[:2500]
	}
	return string(b)
}

// ShardRange splits [0,n) into NShards contiguous ranges and returns this shard's.
func ShardRange(n int64) (lo, hi int64) {
	k := int64(Cfg.NShards)
	s := int64(Cfg.Shard)
	lo = n * s / k
	hi = n * (s + 1) / k
	return
}
