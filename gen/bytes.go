package gen

import (
	"pgregory.net/rapid"

	m "verif/refmodel"
)

// PionDialect is the encoding dialect under which pion/rtcp's decoders accept SLI and read
// CCFB blocks the way its encoder writes them; the byte generators use both this and the
// strict form as seed material so that both reach body parsing.
var PionDialect = m.Dialect{SLIPT205: true, CCFBMinusOne: true}

// SeedEncoding draws the reference encoding of a D-value (strict or pion dialect).
func SeedEncoding(t *rapid.T) (m.Packet, []byte) {
	p := Packet(t)
	d := m.Strict
	if Bool(t, "seed.piondialect") {
		d = PionDialect
	}
	e, err := m.Encode(p, &m.EncOpts{D: d})
	if err != nil {
		panic("gen.SeedEncoding: " + err.Error())
	}
	return p, e.B
}

var hostile16 = []uint16{0, 1, 2, 3, 4, 5, 6, 7, 0x1FFF, 0x2000, 0x3FFE, 0x3FFF, 0x4000, 0x4001, 0x7FFF, 0x8000, 0xBFFF, 0xC000, 0xFFFE, 0xFFFF}
var hostile8 = []byte{0, 1, 2, 3, 4, 0x1F, 0x20, 0x3F, 0x40, 0x7F, 0x80, 0x81, 0xBF, 0xC0, 0xFE, 0xFF}

func put16(b []byte, off int, v uint16) {
	if off+1 < len(b) {
		b[off] = byte(v >> 8)
		b[off+1] = byte(v)
	}
}

// MutateHeader applies one directed mutation to the 4-octet header of the frame at b[0:].
func MutateHeader(t *rapid.T, b []byte) string {
	if len(b) < 4 {
		return "none"
	}
	trueLen := len(b)/4 - 1
	switch rapid.IntRange(0, 5).Draw(t, "hdrmut") {
	case 0:
		c := []int{0, 1, 2, trueLen - 1, trueLen + 1, trueLen - 2, 16383, 16384, 16385, 32767, 65535}
		v := rapid.SampledFrom(c).Draw(t, "len")
		if v < 0 {
			v = 0
		}
		put16(b, 2, uint16(v))
		return "length-field"
	case 1:
		b[0] = b[0]&0xE0 | rapid.SampledFrom([]byte{0, 1, 2, 4, 5, 11, 15, 30, 31}).Draw(t, "count")
		return "count"
	case 2:
		b[0] ^= 0x20
		return "padding-bit"
	case 3:
		b[0] = b[0]&0x3F | byte(rapid.IntRange(0, 3).Draw(t, "version"))<<6
		return "version"
	case 4:
		b[1] = rapid.SampledFrom([]byte{200, 201, 202, 203, 204, 205, 206, 207, 208, 0, 199, 255}).Draw(t, "pt")
		return "packet-type"
	default:
		trueCount := int(b[0] & 0x1f)
		c := []int{trueCount + 1, trueCount - 1, trueCount + 2, 31}
		v := rapid.SampledFrom(c).Draw(t, "count2")
		if v < 0 {
			v = 0
		}
		b[0] = b[0]&0xE0 | byte(v&0x1f)
		return "count-inflate"
	}
}

// MutateField overwrites one octet or one 16-bit field with a hostile constant.
func MutateField(t *rapid.T, b []byte) string {
	if len(b) == 0 {
		return "none"
	}
	off := rapid.IntRange(0, len(b)-1).Draw(t, "off")
	if off < 32 || rapid.IntRange(0, 3).Draw(t, "fieldwidth") != 0 {
		// early offsets hold counts / lengths: be thorough there
	}
	if rapid.Bool().Draw(t, "wide") && off+1 < len(b) {
		put16(b, off&^1, rapid.SampledFrom(hostile16).Draw(t, "v16"))
		return "field16"
	}
	b[off] = rapid.SampledFrom(hostile8).Draw(t, "v8")
	return "field8"
}

// TWCCWrap builds the adaptive transport-wide-cc input that drives a 16-bit status counter
// to its wrap point: status count near 65535, run-length chunks up to a target, then vector
// chunks, then filler.
func TWCCWrap(t *rapid.T, total int) []byte {
	if total < 24 {
		total = 24
	}
	total = total / 4 * 4
	b := make([]byte, total)
	b[0], b[1] = 0x8F, 205
	put16(b, 2, uint16(total/4-1))
	count := rapid.SampledFrom([]uint16{0xFFFF, 0xFFFE, 0xFFF2, 0xFFF1, 0xFFF0, 0x8000, 0x7FFF}).Draw(t, "statuscount")
	put16(b, 14, count)
	pos := 20
	processed := 0
	target := int(count) - rapid.IntRange(1, 14).Draw(t, "gap")
	sym := uint16(rapid.IntRange(0, 2).Draw(t, "sym"))
	for processed < target && pos+2 <= total {
		r := target - processed
		if r > 8191 {
			r = 8191
		}
		put16(b, pos, sym<<13|uint16(r))
		pos += 2
		processed += r
	}
	// then vector chunks with every symbol "received" so that each restart of a wrapped
	// loop appends as many deltas as possible
	vec := rapid.SampledFrom([]uint16{0xBFFF, 0xD555, 0xEAAA, 0xFFFF, 0x8000}).Draw(t, "vec")
	filler := rapid.SampledFrom([]uint16{0x3FFF, 0x5FFF, 0xBFFF, 0xD555, 0x0000}).Draw(t, "filler")
	first := true
	for pos+2 <= total {
		if first {
			put16(b, pos, vec)
			first = false
		} else {
			put16(b, pos, filler)
		}
		pos += 2
	}
	return b
}

// BigFrame builds a frame of n words whose header carries the (possibly wrapped) length and
// whose body is structured for the given kind.
func BigFrame(t *rapid.T) []byte {
	words := rapid.SampledFrom([]int{16382, 16383, 16384, 16385, 16386, 32768, 49152, 65535, 65536}).Draw(t, "words")
	ptfmt := rapid.SampledFrom([][2]byte{{205, 1}, {206, 2}, {205, 2}, {206, 4}, {205, 15}, {205, 11}, {206, 15}, {207, 0}, {200, 1}, {201, 31}, {202, 1}, {203, 31}, {204, 0}, {206, 1}, {205, 5}, {210, 0}}).Draw(t, "ptfmt")
	b := make([]byte, 4*words)
	fill := rapid.SampledFrom([]byte{0x00, 0x01, 0x3F, 0x80, 0xFF}).Draw(t, "fill")
	for i := range b {
		b[i] = fill
	}
	b[0] = 0x80 | ptfmt[1]&0x1f
	b[1] = ptfmt[0]
	put16(b, 2, uint16(words-1))
	if ptfmt[0] == 206 && ptfmt[1] == 15 && len(b) >= 20 {
		copy(b[8:], []byte{0, 0, 0, 0, 'R', 'E', 'M', 'B'})
	}
	return b
}

// ForcedHeader returns random octets behind a valid header for a drawn (PT, FMT) row.
func ForcedHeader(t *rapid.T, maxWords int) []byte {
	ptfmt := rapid.SampledFrom([][2]byte{{200, 0}, {200, 1}, {201, 0}, {201, 2}, {202, 1}, {202, 2}, {203, 0}, {203, 1}, {204, 3}, {205, 1}, {205, 5}, {205, 11}, {205, 15}, {205, 2}, {206, 1}, {206, 2}, {206, 4}, {206, 15}, {207, 0}}).Draw(t, "ptfmt")
	words := rapid.IntRange(0, maxWords).Draw(t, "words")
	b := make([]byte, 4+4*words)
	copy(b[4:], BytesN(t, 4*words, "body"))
	b[0] = 0x80 | ptfmt[1]
	b[1] = ptfmt[0]
	put16(b, 2, uint16(words))
	if ptfmt[0] == 206 && ptfmt[1] == 15 && len(b) >= 20 && Bool(t, "remb.id") {
		copy(b[8:], []byte{0, 0, 0, 0, 'R', 'E', 'M', 'B'})
	}
	return b
}

// RepeatedFrame builds a datagram out of many copies of one small (possibly mutated) frame:
// a decoder whose allocation is out of proportion to a small frame stays under any fixed
// budget for one frame, but not for a datagram full of them.
func RepeatedFrame(t *rapid.T, maxTotal int) []byte {
	var f []byte
	switch rapid.IntRange(0, 2).Draw(t, "rep.kind") {
	case 0:
		f = ForcedHeader(t, 6)
	default:
		for tries := 0; tries < 6; tries++ {
			_, f = SeedEncoding(t)
			if len(f) <= 64 {
				break
			}
		}
		if len(f) > 64 {
			f = []byte{0x80, 201, 0, 1, 0, 0, 0, 1}
		}
	}
	for i := rapid.IntRange(0, 2).Draw(t, "rep.nmut"); i > 0; i-- {
		if len(f) > 4 {
			off := rapid.IntRange(4, len(f)-1).Draw(t, "rep.off")
			if rapid.Bool().Draw(t, "rep.wide") {
				put16(f, off&^1, rapid.SampledFrom(hostile16).Draw(t, "rep.v16"))
			} else {
				f[off] = rapid.SampledFrom(hostile8).Draw(t, "rep.v8")
			}
		}
	}
	if len(f) == 0 {
		return nil
	}
	n := maxTotal / len(f)
	if n > 4000 {
		n = 4000
	}
	if n < 1 {
		n = 1
	}
	out := make([]byte, 0, n*len(f))
	for i := 0; i < n; i++ {
		out = append(out, f...)
	}
	return out
}

// HostileBytes draws a byte string from the mixture of DESIGN.md section 3.3 and names its kind.
// big enables the >= 64 KiB classes.
func HostileBytes(t *rapid.T, big bool) (kind string, b []byte) {
	hi := 12
	if big {
		hi = 14
	}
	switch rapid.IntRange(0, hi).Draw(t, "bytes.kind") {
	case 12:
		return "repeated-frame", RepeatedFrame(t, rapid.SampledFrom([]int{1500, 8000, 65000}).Draw(t, "rep.total"))
	case 0:
		_, b = SeedEncoding(t)
		return "valid", b
	case 1, 2:
		_, b = SeedEncoding(t)
		return "header-mutation:" + MutateHeader(t, b), b
	case 3:
		_, b = SeedEncoding(t)
		if len(b) > 0 && Bool(t, "trunc") {
			cut := rapid.IntRange(0, len(b)-1).Draw(t, "cut")
			return "truncated", b[:cut]
		}
		return "extended", append(b, BytesN(t, rapid.IntRange(1, 8).Draw(t, "extra"), "extra")...)
	case 4, 5:
		_, b = SeedEncoding(t)
		n := rapid.IntRange(1, 3).Draw(t, "nmut")
		k := ""
		for i := 0; i < n; i++ {
			k = MutateField(t, b)
		}
		return "field-mutation:" + k, b
	case 6:
		_, a := SeedEncoding(t)
		_, c := SeedEncoding(t)
		i := rapid.IntRange(0, len(a)/4).Draw(t, "splice.a") * 4
		j := rapid.IntRange(0, len(c)/4).Draw(t, "splice.b") * 4
		b = append(append([]byte(nil), a[:i]...), c[j:]...)
		if len(b) >= 4 && Bool(t, "splice.fixlen") {
			put16(b, 2, uint16(len(b)/4-1))
		}
		return "splice", b
	case 7:
		n := rapid.IntRange(2, 5).Draw(t, "nframes")
		for i := 0; i < n; i++ {
			_, f := SeedEncoding(t)
			b = append(b, f...)
		}
		return "concatenation", b
	case 8, 9:
		return "forced-header", ForcedHeader(t, 12)
	case 10:
		return "random", BytesN(t, rapid.IntRange(0, 64).Draw(t, "n"), "random")
	case 11:
		return "twcc-wrap-small", TWCCWrap(t, rapid.SampledFrom([]int{24, 40, 64, 128, 512, 1200, 1500}).Draw(t, "total"))
	case 13:
		return "twcc-wrap-big", TWCCWrap(t, rapid.SampledFrom([]int{4096, 16384, 65532, 65536}).Draw(t, "total"))
	default:
		return "big-frame", BigFrame(t)
	}
}
