// Package gen holds the rapid generators: boundary-biased scalars, model values of every
// packet type in the well-formed domain D (DESIGN.md section 3.2), and byte-level mutators.
// Every random choice is a rapid draw, so cases shrink and replay from the seed.
package gen

import (
	"math"

	"pgregory.net/rapid"

	m "verif/refmodel"
)

// Bits draws a w-bit value from a boundary-biased mixture.
func Bits(t *rapid.T, w int, label string) uint64 {
	max := uint64(1)<<uint(w) - 1
	if w >= 64 {
		max = math.MaxUint64
	}
	sel := rapid.IntRange(0, 9).Draw(t, label+"~")
	if sel >= 4 {
		return rapid.Uint64Range(0, max).Draw(t, label)
	}
	b := []uint64{0, 1, 2, max, max - 1, uint64(1) << uint(w-1), uint64(1)<<uint(w-1) - 1, max / 3, max / 3 * 2}
	if w > 8 {
		b = append(b, 0xFF, 0x100, 0x101, max&^0xFF, uint64(1)<<uint(w-8), max>>8)
	}
	if w > 16 {
		b = append(b, 0xFFFF, 0x10000, 0x10001, max&^0xFFFF)
	}
	v := rapid.SampledFrom(b).Draw(t, label)
	return v & max
}

func U8(t *rapid.T, l string) uint8   { return uint8(Bits(t, 8, l)) }
func U16(t *rapid.T, l string) uint16 { return uint16(Bits(t, 16, l)) }
func U32(t *rapid.T, l string) uint32 { return uint32(Bits(t, 32, l)) }
func U64(t *rapid.T, l string) uint64 { return Bits(t, 64, l) }
func Bool(t *rapid.T, l string) bool  { return rapid.Bool().Draw(t, l) }

// Seq draws a 16-bit sequence number clustered near 0 and 65535.
func Seq(t *rapid.T, l string) uint16 {
	switch rapid.IntRange(0, 3).Draw(t, l+"~") {
	case 0:
		return rapid.Uint16Range(0, 20).Draw(t, l)
	case 1:
		return rapid.Uint16Range(65535-20, 65535).Draw(t, l)
	}
	return rapid.Uint16().Draw(t, l)
}

// Len draws a list length in [min,max]: {min, min+1, min+2, max-1, max} mixed with small uniform.
func Len(t *rapid.T, min, max int, l string) int {
	if max <= min {
		return min
	}
	sel := rapid.IntRange(0, 9).Draw(t, l+"~")
	switch {
	case sel < 5:
		hi := min + 6
		if hi > max {
			hi = max
		}
		return rapid.IntRange(min, hi).Draw(t, l)
	case sel < 8:
		c := []int{min, min + 1, min + 2, max - 1, max}
		v := rapid.SampledFrom(c).Draw(t, l)
		if v > max {
			v = max
		}
		return v
	}
	return rapid.IntRange(min, max).Draw(t, l)
}

// BytesN draws n arbitrary octets.
func BytesN(t *rapid.T, n int, l string) []byte {
	if n == 0 {
		return nil
	}
	switch rapid.IntRange(0, 3).Draw(t, l+"~") {
	case 0:
		b := make([]byte, n)
		f := rapid.SampledFrom([]byte{0x00, 0xFF, 0x01, 0x80, 'a'}).Draw(t, l+"fill")
		for i := range b {
			b[i] = f
		}
		return b
	}
	return rapid.SliceOfN(rapid.Byte(), n, n).Draw(t, l)
}

// TextLen draws a text length 0..255 biased to values around multiples of 4 and the ends.
func TextLen(t *rapid.T, l string) int {
	sel := rapid.IntRange(0, 9).Draw(t, l+"~")
	switch {
	case sel < 5:
		return rapid.IntRange(0, 9).Draw(t, l)
	case sel < 7:
		return rapid.IntRange(250, 255).Draw(t, l)
	}
	return rapid.IntRange(0, 255).Draw(t, l)
}

func RBlock(t *rapid.T) m.RBlock {
	return m.RBlock{SSRC: U32(t, "rb.ssrc"), Fraction: U8(t, "rb.frac"), Lost: uint32(Bits(t, 24, "rb.lost")), LastSeq: U32(t, "rb.seq"),
		Jitter: U32(t, "rb.jit"), LSR: U32(t, "rb.lsr"), DLSR: U32(t, "rb.dlsr")}
}

func RBlocks(t *rapid.T) []m.RBlock {
	n := Len(t, 0, 31, "nreports")
	var out []m.RBlock
	for i := 0; i < n; i++ {
		out = append(out, RBlock(t))
	}
	return out
}

// ExtLen draws a profile-extension length; aligned => multiple of 4.
func ExtLen(t *rapid.T, aligned bool) int {
	sel := rapid.IntRange(0, 9).Draw(t, "ext~")
	if sel < 5 {
		return 0
	}
	n := rapid.IntRange(1, 40).Draw(t, "extlen")
	if ln, ok := nearWords(t, 1, 32, "ext"); ok {
		n = ln // a kilobyte or more of profile extension: the packet length crosses 256, 512, 1024 words
	}
	if aligned {
		n = (n + 3) / 4 * 4
	}
	return n
}

func SR(t *rapid.T) *m.SR {
	return &m.SR{SSRC: U32(t, "ssrc"), NTP: U64(t, "ntp"), RTP: U32(t, "rtp"), Packets: U32(t, "pkts"), Octets: U32(t, "octets"),
		Reports: RBlocks(t), Ext: BytesN(t, ExtLen(t, true), "ext")}
}

func RR(t *rapid.T) *m.RR {
	return &m.RR{SSRC: U32(t, "ssrc"), Reports: RBlocks(t), Ext: BytesN(t, ExtLen(t, false), "ext")}
}

func SDESItem(t *rapid.T, forceCNAME bool) m.SDESItem {
	ty := uint8(1)
	if !forceCNAME {
		ty = rapid.OneOf(rapid.Uint8Range(1, 8), rapid.Uint8Range(1, 255)).Draw(t, "item.type")
	}
	return m.SDESItem{Type: ty, Text: BytesN(t, TextLen(t, "item.len"), "item.text")}
}

func SDES(t *rapid.T) *m.SDES {
	n := Len(t, 0, 31, "nchunks")
	out := &m.SDES{}
	for i := 0; i < n; i++ {
		c := m.SDESChunk{Source: U32(t, "chunk.src")}
		ni := rapid.IntRange(0, 4).Draw(t, "nitems")
		for j := 0; j < ni; j++ {
			c.Items = append(c.Items, SDESItem(t, false))
		}
		out.Chunks = append(out.Chunks, c)
	}
	return out
}

func BYE(t *rapid.T) *m.BYE {
	n := Len(t, 0, 31, "nsources")
	out := &m.BYE{}
	for i := 0; i < n; i++ {
		out.Sources = append(out.Sources, U32(t, "src"))
	}
	if Bool(t, "hasReason") {
		out.Reason = BytesN(t, 1+TextLen(t, "reason.len")*254/255, "reason")
	}
	return out
}

func APP(t *rapid.T) *m.APP {
	dl := 0
	switch rapid.IntRange(0, 9).Draw(t, "data~") {
	case 0, 1:
		dl = 0
	case 2:
		dl = rapid.IntRange(65500, 65523).Draw(t, "datalen")
	case 3:
		dl = rapid.IntRange(0, 3000).Draw(t, "datalen")
	default:
		dl = rapid.IntRange(0, 24).Draw(t, "datalen")
	}
	return &m.APP{Subtype: uint8(Bits(t, 5, "subtype")), SSRC: U32(t, "ssrc"), Name: BytesN(t, 4, "name"), Data: BytesN(t, dl, "data")}
}

func NACK(t *rapid.T) *m.NACK {
	n := Len(t, 1, 253, "npairs")
	out := &m.NACK{Sender: U32(t, "sender"), Media: U32(t, "media")}
	for i := 0; i < n; i++ {
		out.Pairs = append(out.Pairs, m.NackPair{PID: Seq(t, "pid"), BLP: U16(t, "blp")})
	}
	return out
}

func FB(t *rapid.T) *m.FB { return &m.FB{Sender: U32(t, "sender"), Media: U32(t, "media")} }

func SLI(t *rapid.T) *m.SLI {
	n := Len(t, 0, 253, "nsli")
	out := &m.SLI{Sender: U32(t, "sender"), Media: U32(t, "media")}
	for i := 0; i < n; i++ {
		out.Entries = append(out.Entries, m.SLIEntry{First: uint16(Bits(t, 13, "first")), Number: uint16(Bits(t, 13, "number")), Picture: uint8(Bits(t, 6, "pic"))})
	}
	return out
}

func FIR(t *rapid.T) *m.FIR {
	n := Len(t, 1, 40, "nfir")
	if ln, ok := nearWords(t, 8, 12, "fir"); ok && ln > 0 {
		n = ln
	}
	out := &m.FIR{Sender: U32(t, "sender"), Media: U32(t, "media")}
	for i := 0; i < n; i++ {
		out.Entries = append(out.Entries, m.FIREntry{SSRC: U32(t, "fir.ssrc"), Seq: U8(t, "fir.seq")})
	}
	return out
}

// Bitrate draws a finite non-negative float32 with emphasis on powers of two, mantissa
// carries and the saturation point.
func Bitrate(t *rapid.T) float32 {
	switch rapid.IntRange(0, 9).Draw(t, "br~") {
	case 0:
		return rapid.SampledFrom([]float32{0, 1, 0.5, 262143, 262144, 262145, 524287, 524288, math.MaxFloat32, 0x3FFFFp+63, 8927168}).Draw(t, "br")
	case 1, 2:
		e := rapid.IntRange(0, 127).Draw(t, "br.exp")
		base := float32(math.Ldexp(1, e))
		ulps := rapid.IntRange(-4, 4).Draw(t, "br.ulps")
		b := math.Float32bits(base)
		return math.Float32frombits(uint32(int64(b) + int64(ulps)))
	case 3:
		// 18-bit mantissa exactly representable
		mant := uint32(Bits(t, 18, "br.mant"))
		e := rapid.IntRange(0, 63).Draw(t, "br.exp")
		return float32(math.Ldexp(float64(mant), e))
	}
	bits := rapid.Uint32Range(0, 0x7F7FFFFF).Draw(t, "br.bits")
	return math.Float32frombits(bits)
}

func REMB(t *rapid.T) *m.REMB {
	n := Len(t, 0, 255, "nssrc")
	out := &m.REMB{Sender: U32(t, "sender"), Bitrate: Bitrate(t)}
	for i := 0; i < n; i++ {
		out.SSRCs = append(out.SSRCs, U32(t, "ssrc"))
	}
	return out
}

func CCFBMetric(t *rapid.T) m.CCFBMetric {
	if !Bool(t, "received") {
		return m.CCFBMetric{}
	}
	return m.CCFBMetric{Received: true, ECN: uint8(Bits(t, 2, "ecn")), ATO: uint16(Bits(t, 13, "ato"))}
}

func CCFB(t *rapid.T) *m.CCFB {
	out := &m.CCFB{Sender: U32(t, "sender"), Timestamp: U32(t, "ts")}
	nb := Len(t, 0, 6, "nblocks")
	for i := 0; i < nb; i++ {
		b := m.CCFBBlock{SSRC: U32(t, "blk.ssrc"), BeginSeq: Seq(t, "blk.begin")}
		nm := 0
		switch rapid.IntRange(0, 19).Draw(t, "nmetrics~") {
		case 0:
			nm = rapid.IntRange(16380, 16384).Draw(t, "nmetrics")
		case 1, 2:
			nm = rapid.IntRange(0, 300).Draw(t, "nmetrics")
			if ln, ok := nearWords(t, 2, 20, "metrics"); ok {
				nm = ln
			}
		default:
			nm = rapid.IntRange(0, 9).Draw(t, "nmetrics")
		}
		for j := 0; j < nm; j++ {
			b.Metrics = append(b.Metrics, CCFBMetric(t))
		}
		out.Blocks = append(out.Blocks, b)
	}
	return out
}

// nearWords decides whether a variable-length part is made long: one time in sixteen its element
// count is chosen so that the enclosing 16-bit length field (in words, minus one: an XR block
// length, a packet length) lands at or next to 255/256, 511/512 or 1023/1024 - where an 8-bit or
// otherwise narrowed length shows. unit and fixed are the octets per element and of the fixed
// part (header included).
func nearWords(t *rapid.T, unit, fixed int, label string) (int, bool) {
	if rapid.IntRange(0, 15).Draw(t, label+".long?") != 0 {
		return 0, false
	}
	words := rapid.SampledFrom([]int{254, 255, 256, 257, 258, 511, 512, 513, 1023, 1024, 1025}).Draw(t, label+".words")
	n := (4*(words+1) - fixed) / unit
	if n < 0 {
		n = 0
	}
	return n, true
}

func XRBlock(t *rapid.T, bt int) m.XRBlock {
	if bt < 0 {
		bt = rapid.IntRange(0, 8).Draw(t, "bt")
	}
	switch bt {
	case m.XRLossRLE, m.XRDupRLE:
		b := m.XRBlock{BT: uint8(bt), T: uint8(Bits(t, 4, "T")), SSRC: U32(t, "ssrc"), BeginSeq: Seq(t, "begin"), EndSeq: Seq(t, "end")}
		n := 2 * rapid.IntRange(0, 5).Draw(t, "nchunkpairs")
		if ln, ok := nearWords(t, 2, 12, "chunks"); ok {
			n = ln &^ 1
		}
		for i := 0; i < n; i++ {
			b.Chunks = append(b.Chunks, U16(t, "chunk"))
		}
		return b
	case m.XRPRT:
		b := m.XRBlock{BT: uint8(bt), T: uint8(Bits(t, 4, "T")), SSRC: U32(t, "ssrc"), BeginSeq: Seq(t, "begin"), EndSeq: Seq(t, "end")}
		n := rapid.IntRange(0, 6).Draw(t, "ntimes")
		if ln, ok := nearWords(t, 4, 12, "times"); ok {
			n = ln
		}
		for i := 0; i < n; i++ {
			b.Times = append(b.Times, U32(t, "time"))
		}
		return b
	case m.XRRRT:
		return m.XRBlock{BT: m.XRRRT, NTP: U64(t, "ntp")}
	case m.XRDLRR:
		b := m.XRBlock{BT: m.XRDLRR}
		n := rapid.IntRange(0, 5).Draw(t, "nsubs")
		if ln, ok := nearWords(t, 12, 4, "subs"); ok {
			n = ln
		}
		for i := 0; i < n; i++ {
			b.Subs = append(b.Subs, m.DLRRSub{SSRC: U32(t, "ssrc"), LastRR: U32(t, "lrr"), DLRR: U32(t, "dlrr")})
		}
		return b
	case m.XRSS:
		return m.XRBlock{BT: m.XRSS, SS: &m.XRSS_{L: Bool(t, "L"), D: Bool(t, "D"), J: Bool(t, "J"), ToH: uint8(Bits(t, 2, "toh")), SSRC: U32(t, "ssrc"),
			BeginSeq: Seq(t, "begin"), EndSeq: Seq(t, "end"), Lost: U32(t, "lost"), Dup: U32(t, "dup"), MinJitter: U32(t, "minj"), MaxJitter: U32(t, "maxj"),
			MeanJitter: U32(t, "meanj"), DevJitter: U32(t, "devj"), MinTTL: U8(t, "minttl"), MaxTTL: U8(t, "maxttl"), MeanTTL: U8(t, "meanttl"), DevTTL: U8(t, "devttl")}}
	case m.XRVoIP:
		return m.XRBlock{BT: m.XRVoIP, VoIP: &m.XRVoIP_{SSRC: U32(t, "ssrc"), LossRate: U8(t, "a"), DiscardRate: U8(t, "b"), BurstDensity: U8(t, "c"), GapDensity: U8(t, "d"),
			BurstDuration: U16(t, "e"), GapDuration: U16(t, "f"), RTT: U16(t, "g"), EndSysDelay: U16(t, "h"), SignalLevel: U8(t, "i"), NoiseLevel: U8(t, "j"),
			RERL: U8(t, "k"), Gmin: U8(t, "l"), RFactor: U8(t, "m"), ExtRFactor: U8(t, "n"), MOSLQ: U8(t, "o"), MOSCQ: U8(t, "p"), RXConfig: U8(t, "q"),
			JBNominal: U16(t, "r"), JBMax: U16(t, "s"), JBAbsMax: U16(t, "u")}}
	}
	// unknown block type: 0 or 8..255
	ubt := uint8(0)
	if Bool(t, "bt.high") {
		ubt = rapid.Uint8Range(8, 255).Draw(t, "ubt")
	}
	n := 4 * rapid.IntRange(0, 4).Draw(t, "bodywords")
	if ln, ok := nearWords(t, 4, 4, "body"); ok {
		n = 4 * ln
	}
	return m.XRBlock{BT: ubt, TypeSpecific: U8(t, "ts"), Body: BytesN(t, n, "body")}
}

func XR(t *rapid.T, maxBlocks int) *m.XR {
	out := &m.XR{Sender: U32(t, "sender")}
	n := Len(t, 0, maxBlocks, "nblocks")
	for i := 0; i < n; i++ {
		out.Blocks = append(out.Blocks, XRBlock(t, -1))
	}
	return out
}

// RAW draws a well-framed packet whose (PT, FMT) has no row in the dispatch table.
func RAW(t *rapid.T) m.Bytes {
	var pt, count uint8
	for {
		switch rapid.IntRange(0, 2).Draw(t, "raw.pt~") {
		case 0:
			pt = rapid.SampledFrom([]uint8{205, 206}).Draw(t, "raw.pt")
		case 1:
			pt = rapid.SampledFrom([]uint8{0, 1, 72, 127, 128, 191, 192, 193, 194, 195, 199, 208, 209, 210, 211, 212, 213, 255}).Draw(t, "raw.pt")
		default:
			pt = rapid.Uint8().Draw(t, "raw.pt")
		}
		count = uint8(Bits(t, 5, "raw.count"))
		if m.Dispatch(pt, count, m.Strict) == m.KRAW && !(pt == 205 && count == 2) {
			break
		}
	}
	words := rapid.IntRange(0, 8).Draw(t, "raw.words")
	b := []byte{0x80 | count, pt, byte(words >> 8), byte(words)}
	if Bool(t, "raw.p") {
		b[0] |= 0x20
	}
	b = append(b, BytesN(t, 4*words, "raw.body")...)
	return b
}

// Kinds of D that PacketOf understands (everything except COMPOUND).
var LeafKinds = []m.Kind{m.KSR, m.KRR, m.KSDES, m.KBYE, m.KAPP, m.KNACK, m.KRRR, m.KTWCC, m.KCCFB, m.KPLI, m.KSLI, m.KFIR, m.KREMB, m.KXR, m.KRAW}

func PacketOf(t *rapid.T, k m.Kind) m.Packet {
	p := m.Packet{Kind: k}
	switch k {
	case m.KSR:
		p.SR = SR(t)
	case m.KRR:
		p.RR = RR(t)
	case m.KSDES:
		p.SDES = SDES(t)
	case m.KBYE:
		p.BYE = BYE(t)
	case m.KAPP:
		p.APP = APP(t)
	case m.KNACK:
		p.NACK = NACK(t)
	case m.KRRR:
		p.RRR = FB(t)
	case m.KPLI:
		p.PLI = FB(t)
	case m.KSLI:
		p.SLI = SLI(t)
	case m.KFIR:
		p.FIR = FIR(t)
	case m.KREMB:
		p.REMB = REMB(t)
	case m.KTWCC:
		p.TWCC = TWCC(t)
	case m.KCCFB:
		p.CCFB = CCFB(t)
	case m.KXR:
		p.XR = XR(t, 6)
	case m.KRAW:
		p.RAW = RAW(t)
	case m.KCOMPOUND:
		p.Compound = Compound(t)
	default:
		panic("gen.PacketOf: " + string(k))
	}
	return p
}

// Packet draws a packet of any leaf kind.
func Packet(t *rapid.T) m.Packet {
	return PacketOf(t, rapid.SampledFrom(LeafKinds).Draw(t, "kind"))
}

// SDESWithCNAME draws an SDES that contains a CNAME item at a drawn chunk/item position.
func SDESWithCNAME(t *rapid.T) *m.SDES {
	s := SDES(t)
	if len(s.Chunks) == 0 {
		s.Chunks = append(s.Chunks, m.SDESChunk{Source: U32(t, "chunk.src")})
	}
	ci := rapid.IntRange(0, len(s.Chunks)-1).Draw(t, "cname.chunk")
	c := &s.Chunks[ci]
	pos := rapid.IntRange(0, len(c.Items)).Draw(t, "cname.pos")
	it := SDESItem(t, true)
	c.Items = append(c.Items[:pos], append([]m.SDESItem{it}, c.Items[pos:]...)...)
	return s
}

// Compound draws a sequence accepted by the RFC 3550 compound grammar whose members are in D.
func Compound(t *rapid.T) []m.Packet {
	var out []m.Packet
	if Bool(t, "first.sr") {
		out = append(out, PacketOf(t, m.KSR))
	} else {
		out = append(out, PacketOf(t, m.KRR))
	}
	for i := rapid.IntRange(0, 2).Draw(t, "extra.rr"); i > 0; i-- {
		out = append(out, PacketOf(t, m.KRR))
	}
	out = append(out, m.Packet{Kind: m.KSDES, SDES: SDESWithCNAME(t)})
	for i := rapid.IntRange(0, 4).Draw(t, "tail"); i > 0; i-- {
		out = append(out, Packet(t))
	}
	return out
}
