package gen

import (
	"pgregory.net/rapid"

	m "verif/refmodel"
)

// TWCCSeq is the semantic content of a transport-wide-cc feedback: one status per packet
// and one delta (in 250us ticks) per received packet.
type TWCCSeq struct {
	Statuses []uint16 // SymNotReceived | SymSmall | SymLarge
	Ticks    []int64  // one per received status, in order
}

// Statuses draws a status sequence as a list of runs, so that run-length chunks are applicable.
func Statuses(t *rapid.T, maxLen int) TWCCSeq {
	var s TWCCSeq
	n := 0
	switch rapid.IntRange(0, 9).Draw(t, "n~") {
	case 0:
		n = 0
	case 1:
		n = rapid.IntRange(0, maxLen).Draw(t, "n")
	default:
		hi := 40
		if hi > maxLen {
			hi = maxLen
		}
		n = rapid.IntRange(1, hi).Draw(t, "n")
	}
	for len(s.Statuses) < n {
		sym := uint16(rapid.IntRange(0, 2).Draw(t, "sym"))
		rl := 1
		switch rapid.IntRange(0, 4).Draw(t, "run~") {
		case 0:
			rl = rapid.IntRange(1, 30).Draw(t, "run")
		case 1:
			rl = rapid.IntRange(1, n).Draw(t, "run")
		}
		for i := 0; i < rl && len(s.Statuses) < n; i++ {
			s.Statuses = append(s.Statuses, sym)
		}
	}
	for _, st := range s.Statuses {
		switch st {
		case m.SymSmall:
			s.Ticks = append(s.Ticks, int64(Bits(t, 8, "tick.small")))
		case m.SymLarge:
			s.Ticks = append(s.Ticks, int64(int16(Bits(t, 16, "tick.large"))))
		}
	}
	return s
}

// Chunking draws one valid chunking of the status sequence. Only the last chunk may cover
// more symbols than remain; its surplus vector symbols are 0 and (if allowOverRun) the run
// length of a final run-length chunk may exceed what remains.
func Chunking(t *rapid.T, st []uint16, allowOverRun bool) []m.TWCCChunk {
	var out []m.TWCCChunk
	i := 0
	for i < len(st) {
		rem := len(st) - i
		// how long is the constant run starting at i?
		run := 1
		for i+run < len(st) && st[i+run] == st[i] {
			run++
		}
		// can the next 14 (or all remaining) symbols go in a 1-bit vector?
		oneBitOK := true
		for j := i; j < len(st) && j < i+14; j++ {
			if st[j] == m.SymLarge {
				oneBitOK = false
			}
		}
		var choices []int // 0 run, 1 one-bit vector, 2 two-bit vector
		choices = append(choices, 0, 2)
		if oneBitOK {
			choices = append(choices, 1)
		}
		switch rapid.SampledFrom(choices).Draw(t, "chunk.kind") {
		case 0:
			maxRun := run
			if maxRun > 8191 {
				maxRun = 8191
			}
			r := maxRun
			if rapid.IntRange(0, 3).Draw(t, "run.split") == 0 {
				r = rapid.IntRange(1, maxRun).Draw(t, "run.len")
			}
			c := m.TWCCChunk{Symbol: st[i], Run: uint16(r)}
			if allowOverRun && r == rem && rapid.IntRange(0, 3).Draw(t, "run.over") == 0 {
				c.Run = uint16(rapid.IntRange(r, 8191).Draw(t, "run.overlen"))
			}
			out = append(out, c)
			i += r
		case 1:
			c := m.TWCCChunk{Vector: true, Symbols: make([]uint16, 14)}
			k := copy(c.Symbols, st[i:])
			out = append(out, c)
			i += k
		case 2:
			c := m.TWCCChunk{Vector: true, TwoBit: true, Symbols: make([]uint16, 7)}
			k := copy(c.Symbols, st[i:])
			out = append(out, c)
			i += k
		}
	}
	return out
}

// BuildTWCC assembles the wire-level model from a sequence and a chunking.
func BuildTWCC(t *rapid.T, s TWCCSeq, chunks []m.TWCCChunk) *m.TWCC {
	v := &m.TWCC{Sender: U32(t, "sender"), Media: U32(t, "media"), BaseSeq: Seq(t, "base"), StatusCount: uint16(len(s.Statuses)),
		RefTime: uint32(Bits(t, 24, "reftime")), FbCount: U8(t, "fbcount"), Chunks: chunks}
	k := 0
	for _, st := range s.Statuses {
		switch st {
		case m.SymSmall:
			v.Deltas = append(v.Deltas, m.TWCCDelta{Micros: 250 * s.Ticks[k]})
			k++
		case m.SymLarge:
			v.Deltas = append(v.Deltas, m.TWCCDelta{Large: true, Micros: 250 * s.Ticks[k]})
			k++
		}
	}
	FixTWCCHeader(v, Bool(t, "padflag"))
	return v
}

// FixTWCCHeader sets the caller-supplied header consistently with the content.
func FixTWCCHeader(v *m.TWCC, padFlagIfPadded bool) {
	n := m.TWCCContentSize(v)
	pad := (4 - n%4) % 4
	v.HdrLength = uint16((n+pad)/4 - 1)
	v.Padding = pad > 0 && padFlagIfPadded
}

// TWCC draws a well-formed transport-wide-cc feedback (status count <= 300 mostly).
func TWCC(t *rapid.T) *m.TWCC {
	s := Statuses(t, 300)
	return BuildTWCC(t, s, Chunking(t, s.Statuses, false))
}
