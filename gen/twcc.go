package gen

import (
	"pgregory.net/rapid"

	m "verif/refmodel"
)

// TWCCSeq is the semantic content of a transport-wide-cc feedback: one status per packet
// and one delta (in 250us ticks) per received packet.
type TWCCSeq struct {
	Statuses []uint16 // SymNotReceived | SymSmall | SymLarge
	Ticks    []int64  // one per received status, in order
}

// Statuses draws a status sequence as a list of runs, so that run-length chunks are applicable.
func Statuses(t *rapid.T, maxLen int) TWCCSeq {
	var s TWCCSeq
	n := 0
	switch rapid.IntRange(0, 9).Draw(t, "n~") {
	case 0:
		n = 0
	case 1:
		n = rapid.IntRange(0, maxLen).Draw(t, "n")
	default:
		hi := 40
		if hi > maxLen {
			hi = maxLen
		}
		n = rapid.IntRange(1, hi).Draw(t, "n")
	}
	for len(s.Statuses) < n {
		sym := uint16(rapid.IntRange(0, 2).Draw(t, "sym"))
		rl := 1
		switch rapid.IntRange(0, 4).Draw(t, "run~") {
		case 0:
			rl = rapid.IntRange(1, 30).Draw(t, "run")
		case 1:
			rl = rapid.IntRange(1, n).Draw(t, "run")
		}
		for i := 0; i < rl && len(s.Statuses) < n; i++ {
			s.Statuses = append(s.Statuses, sym)
		}
	}
	for _, st := range s.Statuses {
		switch st {
		case m.SymSmall:
			s.Ticks = append(s.Ticks, int64(Bits(t, 8, "tick.small")))
		case m.SymLarge:
			s.Ticks = append(s.Ticks, int64(int16(Bits(t, 16, "tick.large"))))
		}
	}
	return s
}

// Chunking draws one valid chunking of the status sequence. Only the last chunk may cover
// more symbols than remain; its surplus vector symbols are 0 and (if allowOverRun) the run
// length of a final run-length chunk may exceed what remains.
func Chunking(t *rapid.T, st []uint16, allowOverRun bool) []m.TWCCChunk {
	var out []m.TWCCChunk
	i := 0
	for i < len(st) {
		rem := len(st) - i
		// how long is the constant run starting at i?
		run := 1
		for i+run < len(st) && st[i+run] == st[i] {
			run++
		}
		// can the next 14 (or all remaining) symbols go in a 1-bit vector?
		oneBitOK := true
		for j := i; j < len(st) && j < i+14; j++ {
			if st[j] == m.SymLarge {
				oneBitOK = false
			}
		}
		// a run-length chunk of length zero describes no packet: format-legal wherever a chunk is
		// read, never produced by an encoder that packs greedily
		if rapid.IntRange(0, 15).Draw(t, "zero.run?") == 0 {
			out = append(out, m.TWCCChunk{Symbol: uint16(rapid.IntRange(0, 2).Draw(t, "zero.run.symbol")), Run: 0})
		}
		var choices []int // 0 run, 1 one-bit vector, 2 two-bit vector
		choices = append(choices, 0, 2)
		if oneBitOK {
			choices = append(choices, 1)
		}
		switch rapid.SampledFrom(choices).Draw(t, "chunk.kind") {
		case 0:
			maxRun := run
			if maxRun > 8191 {
				maxRun = 8191
			}
			r := maxRun
			if rapid.IntRange(0, 3).Draw(t, "run.split") == 0 {
				r = rapid.IntRange(1, maxRun).Draw(t, "run.len")
			}
			c := m.TWCCChunk{Symbol: st[i], Run: uint16(r)}
			if allowOverRun && r == rem && rapid.IntRange(0, 3).Draw(t, "run.over") == 0 {
				c.Run = uint16(rapid.IntRange(r, 8191).Draw(t, "run.overlen"))
			}
			out = append(out, c)
			i += r
		case 1:
			c := m.TWCCChunk{Vector: true, Symbols: make([]uint16, 14)}
			k := copy(c.Symbols, st[i:])
			out = append(out, c)
			i += k
		case 2:
			c := m.TWCCChunk{Vector: true, TwoBit: true, Symbols: make([]uint16, 7)}
			k := copy(c.Symbols, st[i:])
			out = append(out, c)
			i += k
		}
	}
	return out
}

// BuildTWCC assembles the wire-level model from a sequence and a chunking.
func BuildTWCC(t *rapid.T, s TWCCSeq, chunks []m.TWCCChunk) *m.TWCC {
	v := &m.TWCC{Sender: U32(t, "sender"), Media: U32(t, "media"), BaseSeq: Seq(t, "base"), StatusCount: uint16(len(s.Statuses)),
		RefTime: uint32(Bits(t, 24, "reftime")), FbCount: U8(t, "fbcount"), Chunks: chunks}
	k := 0
	for _, st := range s.Statuses {
		switch st {
		case m.SymSmall:
			v.Deltas = append(v.Deltas, m.TWCCDelta{Micros: 250 * s.Ticks[k]})
			k++
		case m.SymLarge:
			v.Deltas = append(v.Deltas, m.TWCCDelta{Large: true, Micros: 250 * s.Ticks[k]})
			k++
		}
	}
	FixTWCCHeader(v, Bool(t, "padflag"))
	return v
}

// FixTWCCHeader sets the caller-supplied header consistently with the content.
func FixTWCCHeader(v *m.TWCC, padFlagIfPadded bool) {
	n := m.TWCCContentSize(v)
	pad := (4 - n%4) % 4
	v.HdrLength = uint16((n+pad)/4 - 1)
	v.Padding = pad > 0 && padFlagIfPadded
}

// TWCC draws a well-formed transport-wide-cc feedback (status count <= 300 mostly).
func TWCC(t *rapid.T) *m.TWCC {
	// one value in sixteen is long: runs of 4096..8191 statuses (all 13 bits of a run length) and
	// status counts up to 65535 appear in well-formed values too, not only in C13's inputs
	if rapid.IntRange(0, 15).Draw(t, "twcc.long?") == 0 {
		s, c1, _ := LongTWCC(t)
		total := 0
		for _, c := range c1 {
			total += int(c.Run)
		}
		if over := total - len(s.Statuses); over > 0 { // a value of D has no over-long final run
			c1[len(c1)-1].Run -= uint16(over)
		}
		return BuildTWCC(t, s, c1)
	}
	s := Statuses(t, 300)
	return BuildTWCC(t, s, Chunking(t, s.Statuses, false))
}

// LongTWCC draws a long status sequence (up to the largest status count, 65535) made of a few
// runs - mostly long runs of lost packets, short runs of received ones so that the packet stays
// small - and two run-length chunkings of it that cut the runs at different places. In either
// chunking the final run may be longer than what remains (it is clipped to the status count):
// with counts near 65535 the start of that run plus its length reaches 2^16, the place where
// 16-bit status arithmetic wraps.
func LongTWCC(t *rapid.T) (TWCCSeq, []m.TWCCChunk, []m.TWCCChunk) {
	n := rapid.SampledFrom([]int{65535, 65535, 65535, 65534, 65528, 61000, 57345, 57344, 40000, 32768, 16384, 8192, 8191}).Draw(t, "long.n")
	type run struct {
		sym uint16
		n   int
	}
	var runs []run
	left := n
	tail := rapid.IntRange(1, 200).Draw(t, "long.tail")
	tailSym := uint16(rapid.IntRange(0, 2).Draw(t, "long.tailsym"))
	left -= tail
	for left > 0 {
		sym := uint16(0)
		l := rapid.IntRange(1, 20000).Draw(t, "long.lost")
		if rapid.IntRange(0, 3).Draw(t, "long.recv?") == 0 {
			sym = uint16(rapid.IntRange(1, 2).Draw(t, "long.sym"))
			l = rapid.IntRange(1, 120).Draw(t, "long.recv")
		}
		if l > left {
			l = left
		}
		runs = append(runs, run{sym, l})
		left -= l
	}
	runs = append(runs, run{tailSym, tail})
	var s TWCCSeq
	for _, r := range runs {
		for i := 0; i < r.n; i++ {
			s.Statuses = append(s.Statuses, r.sym)
			switch r.sym {
			case m.SymSmall:
				s.Ticks = append(s.Ticks, int64(Bits(t, 8, "tick.small")))
			case m.SymLarge:
				s.Ticks = append(s.Ticks, int64(int16(Bits(t, 16, "tick.large"))))
			}
		}
	}
	chunking := func(label string) []m.TWCCChunk {
		var out []m.TWCCChunk
		for ri, r := range runs {
			rem := r.n
			for rem > 0 {
				piece := rem
				if piece > 8191 {
					piece = 8191
				}
				if rapid.IntRange(0, 2).Draw(t, label+".split") == 0 {
					piece = rapid.IntRange(1, piece).Draw(t, label+".piece")
				}
				c := m.TWCCChunk{Symbol: r.sym, Run: uint16(piece)}
				rem -= piece
				if ri == len(runs)-1 && rem == 0 && rapid.IntRange(0, 1).Draw(t, label+".over") == 0 {
					c.Run = uint16(rapid.IntRange(piece, 8191).Draw(t, label+".overlen"))
				}
				out = append(out, c)
			}
		}
		return out
	}
	return s, chunking("c1"), chunking("c2")
}
