#!/usr/bin/env python3
"""usage: seedseeds.py <seed,seed,...> <seeded-dir>...   Runs, for every seeded change, the quick tier of its
TARGET property at other VERIF_SEED values (scratch worktrees, nothing is recorded): is the detection robust
against the seed, or was VERIF_SEED=1 lucky?"""
import sys, os, json, subprocess
from concurrent.futures import ThreadPoolExecutor
ENV = dict(os.environ, GOFLAGS="-mod=mod", GOPROXY="off", GOSUMDB="off", GOTOOLCHAIN="local")
def sh(cmd, **kw): return subprocess.run(cmd, shell=True, text=True, capture_output=True, **kw)
def one(d, seeds):
    d = os.path.abspath(d); name = os.path.basename(d)
    meta = json.load(open(f"{d}/meta.json"))
    props = meta.get("property", "").split(",") if "property" in meta else meta.get("expected_killers", [])
    wt = f"/tmp/ss-{name}-{os.getpid()}"
    sh(f"git -C /repo worktree add -q --detach {wt} HEAD")
    out = {}
    try:
        if sh(f"git -C {wt} apply {d}/patch.diff").returncode != 0: return name, "patch does not apply"
        for s in seeds:
            for p in props:
                env = dict(ENV, VCHECK_REPO=wt, VCHECK_TAG="-ss" + name, VCHECK_EVIDENCE_DIR=wt + "/ev", VCHECK_REPLAY_DIR=wt + "/rp", VERIF_SEED=s)
                r = sh(f"/verif/bin/vcheck run --prop {p} --tier quick", env=env, cwd="/verif")
                out[f"{p}@{s}"] = "VIOLATION" if "VIOLATION" in r.stdout else f"exit{r.returncode}"
    finally:
        sh(f"git -C /repo worktree remove --force {wt}"); sh(f"rm -rf /verif/.build/*-ss{name}")
    return name, out
seeds = sys.argv[1].split(",")
with ThreadPoolExecutor(4) as ex:
    for name, out in ex.map(lambda d: one(d, seeds), sys.argv[2:]):
        if isinstance(out, str):
            print(name, out, flush=True); continue
        bad = {k: v for k, v in out.items() if v != "VIOLATION"}
        # a seed at which none of the target checks reports the change is a real miss
        missed = [s for s in seeds if not any(v == "VIOLATION" for k, v in out.items() if k.endswith("@" + s))]
        print(name, "all reported" if not bad else (f"NO TARGET REPORTS IT AT SEED {missed}: {out}" if missed else f"reported at every seed (not by: {sorted(bad)})"), flush=True)
