#!/usr/bin/env python3
"""usage: addfinding.py fixed <id> <props,comma> <commit> <what>
          addfinding.py open  <id> <props,comma> <sub> <witness-json> <what>"""
import json, sys
p='/verif/known_findings.json'
k=json.load(open(p))
mode=sys.argv[1]
if mode=='fixed':
    _,_,fid,props,commit,what=sys.argv
    props=props.split(',')
    k['findings']=[f for f in k['findings'] if f['id']!=fid]
    k['findings'].append({"id":fid,"properties":props,"status":"fixed","commit":commit,"what":what,
        "record":"; ".join(f"fixed: property={pp} {commit} {what}" for pp in props)})
else:
    _,_,fid,props,sub,wit,what=sys.argv
    k['findings']=[f for f in k['findings'] if f['id']!=fid]
    e={"id":fid,"properties":props.split(','),"status":"open","what":what}
    if sub: e["sub"]=sub; e["witness"]=json.loads(wit)
    k['findings'].append(e)
json.dump(k,open(p,'w'),indent=1)
print("ok", fid)
