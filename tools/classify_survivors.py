#!/usr/bin/env python3
"""Writes mutants-auto/survivors.json: the hand classification of the automatic mutants that no
check reports. Every rule below was written after reading the mutated line (DESIGN.md 8.4); a
survivor no rule covers stays UNCLASSIFIED in MUTATIONS-AUTO.md."""
import json, re

R = "/verif/mutants-auto/results.jsonl"
EQ_DEAD = "equivalent: error propagation that cannot fire"
EQ_GUARD = "equivalent: a second guard rejects the same inputs"
EQ_NOOP = "equivalent: no-op on this operand"
EQ_SLICE = "equivalent: slice bound wider than what is read or written"
EQ_VAL = "equivalent: same observable behaviour"
ERRVAL = "equivalent for the properties: only the error value or a result returned together with an error differs"
OUT_STR = "outside the properties: text produced by String() (C17 requires only that it returns)"
OUT = "outside the properties"

# (file, line) -> (class, note); op-specific keys (file, line, op) take precedence
L = {}
def rule(f, lines, cls, note, op=None):
    for ln in lines:
        L[(f, ln, op)] = (cls, note)

rule("compound_packet.go", [79], OUT, "CNAME() of an empty CompoundPacket; C11 speaks about compounds that validate")
rule("compound_packet.go", [142], OUT, "DestinationSSRC() of an empty CompoundPacket; C10/C11 speak about well-formed compounds")
rule("compound_packet.go", [153, 156], OUT_STR, "members printed through stringify instead of their own String, or not at all")
rule("extended_report.go", [193], EQ_VAL, "TerminatingNullChunkType is a label returned by Chunk.Type(), never written to the wire")
rule("extended_report.go", [221], ERRVAL, "value returned with errWrongChunkType")
rule("extended_report.go", [461], EQ_VAL, "the extra mask bit is shifted out")
rule("extended_report.go", [582], EQ_GUARD, "per-block size check; the packet size check that follows covers it")
rule("extended_report.go", [635], EQ_VAL, "block loop over a buffer that is a whole number of words")
rule("extended_report.go", [684], EQ_VAL, "slice capacity hint")
rule("full_intra_request.go", [35], EQ_VAL, "12+8n is never exactly 262144")
rule("full_intra_request.go", [56], EQ_GUARD, "minimum-length guard; the length-field checks that follow reject the same frames")
rule("full_intra_request.go", [74], OUT, "these variants only start to accept a FIR with no entries (RFC 5104: one or more); empty FIR/NACK is outside D and no statement requires its rejection (8.3b)")
rule("goodbye.go", [139], EQ_VAL, "a one-octet reason: 1 or 2 more octets round up to the same word")
rule("header.go", [113, 142], EQ_NOOP, "countShift is 0")
rule("packet.go", [63], ERRVAL, "a header error is reported by the decoder that is then tried")
rule("packet_buffer.go", [61, 69, 77, 85, 91, 234], EQ_VAL, "CanInterface() is true for every value that reaches this case")
rule("packet_buffer.go", [66, 74, 82, 163], EQ_GUARD, "the fixed-size block was already checked to fit (length checks in ExtendedReport.Unmarshal)")
rule("packet_buffer.go", [111, 196], EQ_VAL, "only the VoIP block's unexported reserved octet takes this path, never last")
rule("packet_buffer.go", [129, 135, 138, 177], EQ_VAL, "true / no-op for every receiver the package passes in")
rule("packet_buffer.go", [212], EQ_GUARD, "split() clamp; block lengths beyond the packet are rejected before")
rule("packet_stringifier.go", [49, 51, 90, 101], OUT_STR, "formatting path of stringify")
rule("raw_packet.go", [19], EQ_GUARD, "Header.Unmarshal rejects fewer than 4 octets")
rule("raw_packet.go", [31], ERRVAL, "Header() of a RawPacket that does not hold a header")
rule("receiver_estimated_maximum_bitrate.go", [33, 38], ERRVAL, "MarshalTo's error is re-detected through n != len(buf)")
rule("receiver_estimated_maximum_bitrate.go", [82, 84, 85, 189, 203, 206], EQ_SLICE, "")
rule("receiver_estimated_maximum_bitrate.go", [102], EQ_VAL, "clamping a value equal to the maximum")
rule("receiver_estimated_maximum_bitrate.go", [115], EQ_DEAD, "exp cannot reach 64 after the clamp")
rule("receiver_estimated_maximum_bitrate.go", [161, 193], EQ_GUARD, "length guards overlap")
rule("receiver_estimated_maximum_bitrate.go", [172, 173], OUT, "REMB's refusal of the P bit: listed finding padding-not-honoured:REMB (any handling of a padded REMB is excused)")
rule("receiver_estimated_maximum_bitrate.go", [185], OUT_STR, "argument of an error message")
rule("receiver_estimated_maximum_bitrate.go", [272, 275, 276, 277], OUT_STR, "unit scaling in REMB.String")
rule("rfc8888.go", [223], OUT_STR, "")
rule("rfc8888.go", [339, 340], EQ_VAL, "the metric block decoded into is always fresh")
rule("slice_loss_indication.go", [37, 43], OUT, "moves the refusal limit from 253 to 254..257 entries; the output stays correct (C08 allows refusals, 8.3b)")
rule("transport_layer_nack.go", [93, 99], OUT, "moves the refusal limit from 253 to 254..257 pairs; the output stays correct (C08 allows refusals, 8.3b)")
rule("source_description.go", [243, 341], EQ_GUARD, "minimum-length guard followed by an exact one")
rule("source_description.go", [348], EQ_GUARD, "an item ending exactly at the end of its chunk lacks the terminator and is rejected by the chunk loop")
rule("transport_layer_cc.go", [122], EQ_VAL, "writes the T=0 bit: size/value variants still leave bit 15 clear")
rule("transport_layer_cc.go", [150], EQ_VAL, "RunLengthChunk.Type is only ever set to this value")
rule("transport_layer_cc.go", [241], EQ_VAL, "the one-bit case returned above")
rule("transport_layer_cc.go", [430], EQ_VAL, "the extra bit is shifted out of the 32-bit word / ReferenceTime < 2^24 is checked before")
rule("transport_layer_cc.go", [467], EQ_GUARD, "minimum-length guard followed by stricter ones")
rule("transport_layer_cc.go", [495], EQ_SLICE, "")
rule("transport_layer_cc.go", [508], EQ_SLICE, "")
rule("transport_layer_cc.go", [587], EQ_VAL, "min(x, y) with x == y")
rule("transport_layer_nack.go", [47], EQ_VAL, "re-visiting the first number sets no bit (shift by 65535)")
rule("transport_layer_nack.go", [50], OUT, "a distance of exactly 16 opens a new pair instead of bit 15: a different but still exact cover (C12 is about the covered set)")
rule("transport_layer_nack.go", [84], EQ_VAL, "slice capacity hint")
rule("transport_layer_nack.go", [121], EQ_GUARD, "minimum-length guard followed by stricter ones")
rule("transport_layer_nack.go", [139], EQ_VAL, "same accepted set of length fields")
rule("util.go", [28, 34], EQ_VAL, "mask bits that no call site uses")
rule("application_defined.go", [53, 99], EQ_SLICE, "")
rule("application_defined.go", [58], EQ_VAL, "a loop over zero padding octets")

rule("packet.go", [64, 69], ERRVAL, "the octet count returned next to an error")
rule("receiver_estimated_maximum_bitrate.go", [95, 107], ERRVAL, "MarshalTo's n next to an error (Marshal returns no bytes)")
rule("receiver_estimated_maximum_bitrate.go", [207], OUT, "accepting a REMB whose always-zero media SSRC is not zero is receiver leniency; no statement forbids it")
rule("sender_report.go", [219], EQ_DEAD, "the loop above reads exactly h.Count reports or fails")
rule("util.go", [17], ERRVAL, "value returned with errInvalidSizeOrStartIndex")

rule("receiver_report.go", [78], EQ_GUARD, "65536+k report blocks pass the narrowed count check but exceed the packet size limit checked next", op="len16")
rule("sender_report.go", [121], EQ_GUARD, "65536+k report blocks pass the narrowed count check but exceed the packet size limit checked next", op="len16")
rule("source_description.go", [116], EQ_GUARD, "65536+k chunks pass the narrowed count check but exceed the packet size limit checked before", op="len16")

def classify(r):
    f, ln, op, orig = r["file"], r["line"], r["op"], r["orig"]
    if r["status"] == "uncovered":
        return ("not executed by any check", "see COVERAGE.md: unreachable or outside the properties")
    for k in ((f, ln, op), (f, ln, None)):
        if k in L:
            return L[k]
    if op == "narrow16":
        return (EQ_NOOP, "the operand is a byte, a 13-bit field or another value below 65536")
    if op == "narrow8":
        if "MarshalSize()" in orig:
            return (EQ_NOOP, "BYE, NACK and SLI packets have at most 255 words (their list limits), so the length fits 8 bits")
        if "wireSize(b)" in orig:
            return (EQ_NOOP, "a fixed-size XR block (2, 9 or 8 words)")
        return (EQ_NOOP, "the operand is a constant, a loop index below 14 or a masked byte")
    if op == "len16":
        if f == "packet.go" or (f == "compound_packet.go" and ln == 27):
            return (OUT, "a list of 65536 or more packets")
        return (EQ_NOOP, "this length is bounded far below 65536 - by the wire format (at most 31 reports / chunks / sources, 255 SSRCs or text octets, 253 pairs, 16384 metric blocks, 32766 FIR entries or report blocks), by the fixed size of the buffer handed in, or by an earlier check")
    if op == "lit0":
        for k in ((f, ln, "lit-1"), (f, ln, "lit+1"), (f, ln, None)):
            if k in L:
                return L[k]
    if op == "trunc16":
        return (EQ_NOOP, "the operand is an 8- or 16-bit value (or a small constant / reflect size)")
    if op == "del-assign" and orig.startswith("out +="):
        return (OUT_STR, "")
    if op == "if-false" and orig == "err != nil":
        return (EQ_DEAD, "the callee cannot fail for the values that reach it, or the next check rejects the same input with another error")
    if op in ("lit+1", "lit-1") and orig in ("0",) and False:
        return (ERRVAL, "")
    return None

def main():
    latest = {}
    for l in open(R):
        r = json.loads(l)
        latest[(r["base"], r["id"])] = r
    out = {}
    un = 0
    for r in latest.values():
        if r["status"] not in ("survived", "uncovered"):
            continue
        c = classify(r)
        key = f"{r['file']}:{r['line']}:{r['col']}:{r['op']}:{r['repl']}"
        if c is None:
            un += 1
            continue
        out[key] = {"class": c[0], "note": c[1]}
    json.dump(out, open("/verif/mutants-auto/survivors.json", "w"), indent=1, sort_keys=True)
    print(f"{len(out)} classified, {un} unclassified")

main()
