#!/usr/bin/env python3
"""Regenerates /verif/MANIFEST.json from the table below (kept here so it stays consistent)."""
import json, sys

# properties whose check is not built yet (listed under not_applicable until it is)
PENDING = set(sys.argv[1:])  # e.g. genmanifest.py C01 C04 ...

REF = "the independent reference codec (refmodel: self-tested by decode(encode(v)) == v over the same generators and anchored to third-party byte vectors); conv's model<->struct mapping; rapid v1.3.0; the Go toolchain"

C = {
 "C01": ("bounded-exhaustive header/length sweep + rapid structured-hostile byte generation + native coverage-guided fuzzing (thorough), oracle: returns, no panic, allocated bytes and wall time bounded",
         "Exploration: every one of the 24 decode entry points is driven directly (not only through rtcp.Unmarshal) with (a) an exhaustive sweep over total length x first octet x length field x fill patterns, (b) generated hostile inputs built from reference encodings with directed mutations of length/count/status-count fields, including the adaptive TWCC recipe that walks the 16-bit status counter to its wrap point and frames up to 256 KiB, (c) a deterministic field sweep (every 16-bit position and octet of a minimal packet of every type set to hostile constants, decoded alone and as datagrams of repeated copies), (d) decoding into receivers that were used before, (d') 16-bit count and block-length fields at and near their extremes with the announced content present (CCFB num_reports up to 0xFFFF, XR blocks of 64 KiB and more), (e) thorough: native go fuzzing with a seed corpus. The oracle is in the target: recovered panic, allocated bytes > 8 MiB + 128 x len, or wall time > 5 s is a violation.",
         "Resource bounds are this check's reading of 'a fixed few MiB plus a small multiple of the input size' (constants justified in DESIGN.md C01); 'never hangs' is decided as 'returns within the bound on every generated input'."),
 "C02": ("rapid generated values of every type in the well-formed domain D, round-trip oracle through both decoders + list round trip + re-marshal byte equality",
         "Exploration: D-values of all 16 types (boundary-biased fields, lists at 0/1/max, text lengths mod 4, sequence wrap, TWCC chunkings ending at the packet end, compound packets) are marshalled and decoded through the type's own decoder and through rtcp.Unmarshal (which must return the same concrete type); lists go through rtcp.Marshal/Unmarshal; decoded packets must re-marshal to identical bytes. Expected values apply exactly the three documented quantisations, computed by the reference, not by pion.",
         "Equality is on exported semantic fields with nil == empty (conv); " + REF),
 "C03": ("rapid generated D-values, differential oracle: pion Marshal vs independently written RFC encoder, octet by octet with a don't-care mask for unspecified padding octets",
         "Exploration: every D-value is encoded by pion and by refmodel (written from the RFC layouts, int arithmetic, no shared code); outputs must agree on every octet the specifications define. This sees layout errors made symmetrically in encoder and decoder, which no round trip can.",
         REF),
 "C04": ("rapid generated D-values x RFC-permitted variant encodings produced by the reference encoder (alternative TWCC chunkings, unnormalised REMB, padded APP, non-zero reserved bits, unknown XR blocks, stray CCFB bits, BYE reason forms) + count-inflated SR/RR/SDES/BYE, oracle: decoded fields == model / must-reject; plus a differential on damaged frames (rapid, and Go native coverage-guided fuzzing in the thorough tier): frames accepted by both the library and the reference decoder must decode to equal values",
         "Exploration: the decoder is fed encodings its own encoder never produces, built by the reference from a model value, through both decode paths; every semantic field must equal the model. Variants: TWCC chunkings, unnormalised REMB, padded APP, RFC 3550 padding on every other type, reserved bits, unknown XR blocks, stray CCFB bits, BYE reason forms, frames of 64 KiB and more. Count-inflated headers must be rejected.",
         "Variants are RFC-permitted forms only (the statement's list plus RFC 3550 padding on any packet); " + REF),
 "C05": ("rapid generated values incl. deliberately unaligned variable-length parts, intrinsic oracle: len == MarshalSize, multiple of 4, header fields, Header()/Len() accessors, exactly one frame under an independent splitter",
         "Exploration: every value for which Marshal succeeds (D plus SR/RR extensions of every length mod 4, odd XR chunk counts, unknown XR bodies of any length, odd CCFB/TWCC element counts) is checked for size/alignment/header consistency and that an independent frame splitter sees exactly one frame.",
         "PT/FMT table from the RFCs (refmodel.PTFMT); rapid v1.3.0; Go toolchain."),
 "C06": ("rapid generated frame sequences with fault injection (truncation, surplus octets, overlong header, malformed frame), metamorphic oracle: Unmarshal(a||b) == Unmarshal(a) ++ Unmarshal(b), locality per frame, error+nil on any fault; plus an acceptance differential on damaged single frames (rapid, and Go native coverage-guided fuzzing in the thorough tier): whatever the library accepts must be well-formed under the reference decoder's tolerant reading",
         "Exploration: sequences of 1..12 frames of all types (reference encodings, pion encodings, raw frames) are concatenated; each returned packet must equal the decode of its frame alone, every split point must commute with concatenation, and any injected fault or an empty datagram must yield an error and no packets; frames that are well-formed by construction must be accepted; structurally inconsistent frames (REMB with surplus words, XR with an over-long block, CCFB announcing more metric blocks than fit) must be rejected alone and inside a datagram. Frames are delimited by the reference splitter, not by pion.",
         REF),
 "C07": ("exhaustive enumeration of all 256 PT x 32 FMT header cells + all ordered pairs of packet types with generated bodies, oracle: reference dispatch table / must-reject",
         "Exploration, exhaustive over the 8192 (PT, FMT) cells and over the 14x15 ordered type pairs (bodies sampled): dynamic type of the returned packet equals the table, unknown cells come back as RawPacket with verbatim bytes, foreign well-formed packets are rejected by each typed decoder, own output is dispatched back to its own type.",
         "Bodies are sampled, cells and pairs are enumerated; " + REF),
 "C08": ("boundary-value generation per wire limit (at, below, above, far beyond) embedded in generated values, oracle: Marshal error and no bytes above the limit; on success the reference decoder must recover the whole value",
         "Exploration: for each limit row (31 counts, 255-octet texts, 2^24 loss, 255 REMB SSRCs, 16384 CCFB metrics, APP name/subtype, REMB sign, TWCC delta ranges, SDES type 0, plus the general-clause rows: SLI/TWCC/CCFB/XR sub-byte fields, list sizes that overflow the length word) values at L-1, L, L+1 and far beyond (for scalar fields: the type's maximum and, for every bit position above the field, that bit alone and combined with valid low bits; for counts: limit+256k and 65536+k) are marshalled; success implies decode-and-compare equality with the full value, failure implies no bytes.",
         REF),
 "C09": ("rapid byte-level generation (mutated/spliced/resized valid encodings, reference variant encodings, frames >= 64 KiB) + native fuzzing (thorough), oracle: decode-encode-decode idempotence, Marshal never panics",
         "Exploration over accepted inputs that are not the library's canonical output: every datagram accepted by rtcp.Unmarshal is re-marshalled (panic = violation); if that succeeds the new bytes must decode to an equal packet list. TWCC with an inconsistent carried header is exempt as the statement says (counted).",
         "Acceptance rate and non-canonical share are measured and reported; " + REF),
 "C10": ("rapid generated D-values of every type, oracle: independently written per-type SSRC list (refmodel.DestSSRC), on the built value and after encode/decode",
         "Exploration: DestinationSSRC() of every generated packet (lists at 0/1/max, compound, raw) must equal, in order, the list the statement specifies, both for the in-memory value and for the packet obtained by decoding its encoding.",
         REF),
 "C11": ("bounded-exhaustive enumeration of all kind sequences up to length L (quick 4, thorough 6) with drawn members + rapid long sequences, oracle: reference 3-state compound grammar",
         "Exploration, exhaustive over all sequences of the 10 kinds up to the length bound: Validate, Marshal, Unmarshal agree with the reference grammar (both directions of the iff), CNAME() returns the first CNAME text, DestinationSSRC/MarshalSize follow the first member / the sum.",
         "Members are drawn (CNAME position, surrounding items), sequences are enumerated; " + REF),
 "C12": ("bounded-exhaustive enumeration (2^32 pairs thorough) + rapid generated lists vs reference expansion",
         "Exploration: every (PacketID, bitmap) pair in the enumerated range and every early-stop position is checked against an independent expansion; sequence-number lists are generated (clusters with gaps 0,1,15..18,33, wrap, reversal, shuffle) and the set covered by the returned pairs is compared with the input set in both directions. Thorough enumerates all 2^32 pairs.",
         "Lists are sampled, not enumerated (except all 2- and 3-element lists near 0 and the wrap); rapid v1.3.0; Go toolchain."),
 "C13": ("rapid TWCC-targeted byte generation + native fuzzing (thorough) judged by an independent expansion of the raw bytes; rapid status sequences x two independent chunkings judged by chunking invariance; exhaustive short sequences (thorough)",
         "Exploration with two oracles: (A) everything TransportLayerCC.Unmarshal accepts must agree with an independent int-arithmetic walk of the raw bytes (chunks, clipped runs, delta sizes/values/positions, declared-length bounds); (B) two different valid chunkings of the same generated status sequence must decode to the same statuses and deltas, which must equal the generated ones.",
         REF),
 "C14": ("exhaustive enumeration: all 2^24 wire (exp, mantissa) pairs; float32 bitrates on a stride plus dense windows (quick) / all non-negative finite float32 (thorough); exact float64 reference arithmetic",
         "Exploration, exhaustive for decoding (2^24 pairs, both tiers) and for encoding in the thorough tier (all 2^31-2^23 non-negative finite float32): exact value, floor-to-18-bit-mantissa with minimal exponent, saturation, monotonicity in bit-pattern order, negative rejection, SSRC count octet for 0..255 (256 must fail).",
         "All quantities are exactly representable in float64, so no tolerance is used; Go math library."),
 "C15": ("rapid generated block sequences + exhaustive ordered pairs/triples of block kinds, oracles: independent block walker over Marshal output, per-block decode independence (metamorphic), unknown-block byte preservation",
         "Exploration: XR packets over the 7 defined kinds and unknown kinds in every order (all pairs and triples of kinds enumerated, fields generated; block sizes up to 1024 words generated, and 16382..65533 words enumerated for every variable-length kind, alone and between neighbours) are marshalled and walked by an independent parser (BT, length words, type-specific bits in RFC 3611 positions), decoded back (Go type per BT, equal fields), each block must decode identically alone and among neighbours, and unknown blocks must survive decode->Marshal verbatim.",
         REF),
 "C16": ("bounded-exhaustive enumeration of each unit's complete finite domain (strided in quick for the 2^30/2^32 domains, complete in thorough), identity oracles in both directions + reference packing",
         "Exploration, exhaustive per unit: header fields and raw header words, TWCC chunk words, 1/2-octet deltas, 24-bit loss counts, RFC 8888 metric blocks, XR chunk accessors, NACK pairs, SLI and FIR entries: encode-then-decode is the identity on values, decode-then-encode the identity on canonical words, packing equals the reference; rejection rules for version/short headers/count > 31.",
         "Quick strides the 2^30 and 2^32 domains with odd multipliers plus boundary sets; thorough covers them completely; FIR's 2^40 domain is sampled in both."),
 "C17": ("rapid generated packets (decoded from accepted bytes and constructed values incl. out-of-range enums, huge bitrates) + exhaustive enum/REMB sweeps + native fuzzing (thorough), oracle: String/%v/%+v return without panic (fmt's PANIC marker searched explicitly)",
         "Exploration: String() is called under recover and fmt verbs are scanned for fmt's swallowed-panic marker on every packet returned by Unmarshal over generated accepted inputs, on constructed values of every type (empty/maximal lists, Bitrate up to MaxFloat32/Inf/NaN, unknown enums), on all 256 values of each enum type and all 2^16 XR chunks, on compounds mixing all types, and on all decodable REMB (exp, mantissa) pairs.",
         "fmt's behaviour of converting panics in String methods into '%!v(PANIC=' text (checked by a self-test)."),
 "C18": ("rapid state-machine histories with deep snapshots (purity) + generated concurrent scripts under the Go race detector with sequential/concurrent differential results",
         "Exploration: (A) model-based histories of Marshal/MarshalSize/DestinationSSRC/String/Header/Unmarshal/Validate/CNAME over a pool of packets and buffers with deep snapshots compared after every step and every earlier result re-compared (exposes scratch buffers, memoisation, in-place normalisation); (A2) decoding B into a receiver that decoded A before must equal a fresh decode of B; (B) the same operations from 4..32 goroutines on distinct and shared packets in a -race build: any race report (exit 66) or any result differing from the sequential run is a violation.",
         "(B) does not enumerate interleavings: it relies on the race detector being a happens-before detector, so unsynchronised conflicting accesses are reported whatever the schedule; a bug hidden behind correct synchronisation and needing a specific interleaving is out of reach (DESIGN.md C18)."),
}

def main():
    checks = []
    claimed = [p for p in sorted(C) if p not in PENDING]
    for pid in claimed:
        tech, text, note = C[pid]
        checks.append({
            "property_id": pid,
            "quick_cmd": f"/verif/bin/vcheck run --prop {pid} --tier quick",
            "thorough_cmd": f"/verif/bin/vcheck run --prop {pid} --tier thorough",
            "evidence_file": f"/verif/evidence/{pid}.json",
            "replay_cmd_template": f"/verif/bin/vcheck replay --prop {pid} --file {{path}}",
            "engine": "vcheck",
            "level_claimed": {"category": "exploration", "text": text, "design_ref": f"DESIGN.md section 4 {pid}"},
            "level_note": note,
            "technique": tech,
        })
    na = [{"property_id": p, "reason": "check not built yet (implementation in progress; the design in DESIGN.md section 4 applies)"} for p in sorted(PENDING)]
    m = {
        "version": 1,
        "setup_cmd": "cd /verif && ./setup.sh",
        "hooks": {
            "guard": "verif",
            "enable": "go test -tags verif (the harness is an external Go module that imports /repo through a replace directive; no hooks were needed, so no source file in /repo carries the tag)",
            "baseline_off_cmd": "cd /repo && go test -vet=off -count=1 -timeout 25m ./...",
            "source_commits": [],
            "add_only": True,
        },
        "engines": [{
            "name": "vcheck",
            "path": "/verif/cmd/vcheck",
            "serves_properties": claimed,
            "kind_free_text": "Go driver: rebuilds the check binary against /repo's working tree, runs known-finding witnesses, shards rapid / enumerator / native-fuzz searches over processes, merges statistics into evidence, writes replay files",
        }],
        "checks": checks,
        "not_applicable": na,
        "notes": "All checks are property-based tests / fuzzers with explicit oracles (independent reference codec, round trips, metamorphic relations, bounded-exhaustive enumeration). Exit 0 = held on everything explored, 1 = VIOLATION line, 2 = inconclusive (build failure, budget). Known findings: /verif/known_findings.json. See DESIGN.md.",
    }
    json.dump(m, open("/verif/MANIFEST.json", "w"), indent=1)
    print("wrote MANIFEST.json with", len(checks), "checks,", len(na), "not_applicable")

main()
