#!/usr/bin/env python3
"""Regenerates /verif/MANIFEST.json from the table below (kept here so it stays consistent)."""
import json, sys

CLAIMED = {
 # id: (technique, level text, level note, design ref)
 "C12": ("bounded-exhaustive enumeration (2^32 pairs thorough) + rapid generated lists vs reference expansion",
         "Exploration: every (PacketID, bitmap) pair in the enumerated range and every early-stop position is checked against an independent expansion; sequence-number lists are generated (clusters with gaps 0,1,15..18,33, wrap, reversal, shuffle) and the set covered by the returned pairs is compared with the input set in both directions. Thorough enumerates all 2^32 pairs.",
         "Lists are sampled, not enumerated (except all 2- and 3-element lists near 0 and the wrap); rapid v1.3.0; Go toolchain.",
         "DESIGN.md section 4 C12"),
}

PENDING_REASON = "check not built yet (implementation in progress; the design in DESIGN.md section 4 applies)"

def main():
    checks = []
    for pid in sorted(CLAIMED):
        tech, text, note, ref = CLAIMED[pid]
        checks.append({
            "property_id": pid,
            "quick_cmd": f"/verif/bin/vcheck run --prop {pid} --tier quick",
            "thorough_cmd": f"/verif/bin/vcheck run --prop {pid} --tier thorough",
            "evidence_file": f"/verif/evidence/{pid}.json",
            "replay_cmd_template": f"/verif/bin/vcheck replay --prop {pid} --file {{path}}",
            "engine": "vcheck",
            "level_claimed": {"category": "exploration", "text": text, "design_ref": ref},
            "level_note": note,
            "technique": tech,
        })
    na = [{"property_id": f"C{i:02d}", "reason": PENDING_REASON} for i in range(1, 19) if f"C{i:02d}" not in CLAIMED]
    m = {
        "version": 1,
        "setup_cmd": "cd /verif && ./setup.sh",
        "hooks": {
            "guard": "verif",
            "enable": "go test -tags verif (the harness is an external module importing /repo through a replace directive; no hooks are needed so far)",
            "baseline_off_cmd": "cd /repo && go test -vet=off -count=1 -timeout 25m ./...",
            "source_commits": [],
            "add_only": True,
        },
        "engines": [{
            "name": "vcheck",
            "path": "/verif/cmd/vcheck",
            "serves_properties": sorted(CLAIMED),
            "kind_free_text": "Go driver: rebuilds the check binary against /repo's working tree, runs known-finding witnesses, shards rapid/enumerator/native-fuzz searches over processes, merges statistics into evidence, writes replay files",
        }],
        "checks": checks,
        "not_applicable": na,
        "notes": "All checks are property-based tests / fuzzers with explicit oracles (independent reference codec, round trips, metamorphic relations, bounded-exhaustive enumeration). Exit 0 = held on everything explored, 1 = VIOLATION line, 2 = inconclusive (build failure, budget). See DESIGN.md.",
    }
    json.dump(m, open("/verif/MANIFEST.json", "w"), indent=1)
    print("wrote MANIFEST.json with", len(checks), "checks,", len(na), "not_applicable")

main()
