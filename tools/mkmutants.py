#!/usr/bin/env python3
"""Builds the catalogue of deliberate mutations (DESIGN.md section 6.1) as patch files under
/verif/mutants/<name>/ (patch.diff + meta.json). Each mutant is created in a scratch worktree
of /repo (removed afterwards) and kept only if it compiles and the existing test suite still
passes with it. Run tools/seedmatrix.py on the resulting directories to see which checks kill it.
"""
import json, os, subprocess, sys

ENV = dict(os.environ, GOFLAGS="-mod=mod", GOPROXY="off", GOSUMDB="off", GOTOOLCHAIN="local")

def sh(cmd, **kw):
    return subprocess.run(cmd, shell=True, text=True, capture_output=True, **kw)

# (name, expected killers, [(file, old, new), ...])
M = [
 ("sr-drop-report-guard", ["C01"], [("sender_report.go", "\t\tif rrEnd > len(packetBody) {\n\t\t\treturn errPacketTooShort\n\t\t}\n", "")]),
 ("twcc-drop-run-clipping", ["C01", "C13"], [("transport_layer_cc.go", "packetNumberToProcess := localMin(t.PacketStatusCount-uint16(processedPacketNum), packetStatus.RunLength)", "packetNumberToProcess := packetStatus.RunLength")]),
 ("ccfb-drop-numreports-length-check", ["C01"], [("rfc8888.go", "\tif len(rawPacket) < reportsOffset+numReports*2 {\n\t\treturn errIncorrectNumReports\n\t}\n", "")]),
 ("sdes-chunk-len-no-padding", ["C02", "C03", "C05"], [("source_description.go", "\tchunkLen += getPadding(chunkLen)\n\n\treturn chunkLen", "\treturn chunkLen")]),
 ("bye-reason-length-plus-one", ["C02", "C03"], [("goodbye.go", "packetBody[reasonOffset] = uint8(len(reason))", "packetBody[reasonOffset] = uint8(len(reason) + 1)")]),
 ("rblock-swap-jitter-lsr-symmetric", ["C03", "C04"], [("reception_report.go", "\tjitterOffset          = 12\n\tlastSROffset          = 16", "\tjitterOffset          = 16\n\tlastSROffset          = 12")]),
 ("nack-blp-little-endian-symmetric", ["C03", "C04", "C16"], [
     ("transport_layer_nack.go", "binary.BigEndian.PutUint16(rawPacket[nackOffset+(4*i)+2:], uint16(p.Nacks[i].LostPackets))", "binary.LittleEndian.PutUint16(rawPacket[nackOffset+(4*i)+2:], uint16(p.Nacks[i].LostPackets))"),
     ("transport_layer_nack.go", "PacketBitmap(binary.BigEndian.Uint16(rawPacket[i+2:])),", "PacketBitmap(binary.LittleEndian.Uint16(rawPacket[i+2:])),")]),
 ("remb-decode-exp-bias-22", ["C04", "C14"], [("receiver_estimated_maximum_bitrate.go", "\texp += 23  //", "\texp += 22  //")]),
 ("twcc-2bit-symbols-reversed", ["C04", "C13", "C16"], [("transport_layer_cc.go", "r.SymbolList = append(r.SymbolList, getNBitsFromByte(rawPacket[1], i*2, 2))", "r.SymbolList = append(r.SymbolList, getNBitsFromByte(rawPacket[1], 6-i*2, 2))")]),
 ("fir-seq-from-reserved-octet", ["C04", "C16"], [("full_intra_request.go", "\t\t\trawPacket[i+4],\n", "\t\t\trawPacket[i+5],\n")]),
 ("bye-marshalsize-no-padding", ["C05", "C02"], [("goodbye.go", "\treturn l + getPadding(l)\n", "\treturn l\n")]),
 ("ccfb-len-ignores-odd-metrics", ["C05", "C02"], [("rfc8888.go", "\tn := len(b.MetricBlocks)\n\tif n%2 != 0 {\n\t\tn++\n\t}\n\treturn reportsOffset + 2*n", "\tn := len(b.MetricBlocks)\n\treturn reportsOffset + 2*n")]),
 ("dispatch-decoder-gets-rest-of-datagram", ["C06"], [("packet.go", "\terr = packet.Unmarshal(inPacket)", "\terr = packet.Unmarshal(rawData)\n\t_ = inPacket")]),
 ("dispatch-swap-pli-fir", ["C07"], [("packet.go", "\t\tcase FormatPLI:\n\t\t\tpacket = new(PictureLossIndication)", "\t\tcase FormatPLI:\n\t\t\tpacket = new(FullIntraRequest)"), ("packet.go", "\t\tcase FormatFIR:\n\t\t\tpacket = new(FullIntraRequest)", "\t\tcase FormatFIR:\n\t\t\tpacket = new(PictureLossIndication)")]),
 ("format-rrr-6", ["C07", "C03", "C05"], [("header.go", "\tFormatRRR  uint8 = 5", "\tFormatRRR  uint8 = 6")]),
 ("pli-guard-pt-only", ["C07"], [("picture_loss_indication.go", "if h.Type != TypePayloadSpecificFeedback || h.Count != FormatPLI {", "if h.Type != TypePayloadSpecificFeedback {")]),
 ("header-count-limit-32", ["C08", "C16"], [("header.go", "\tif h.Count > 31 {", "\tif h.Count > 32 {")]),
 ("sdes-text-limit-256", ["C08"], [("source_description.go", "\tif octetCount > sdesMaxOctetCount {", "\tif octetCount > sdesMaxOctetCount+1 {")]),
 ("ccfb-max-metric-blocks-16385", ["C08"], [("rfc8888.go", "\tmaxMetricBlocks = 16384", "\tmaxMetricBlocks = 16385")]),
 ("app-padding-count-ignored", ["C04", "C09"], [("application_defined.go", "\t\tpaddingSize = int(rawPacket[len(rawPacket)-1])\n", "\t\tpaddingSize = 0\n\t\t_ = rawPacket[len(rawPacket)-1]\n")]),
 ("sr-dest-omits-sender", ["C10"], [("sender_report.go", "\tout := make([]uint32, len(r.Reports)+1)\n\tfor i, v := range r.Reports {\n\t\tout[i] = v.SSRC\n\t}\n\tout[len(r.Reports)] = r.SSRC\n\treturn out", "\tout := make([]uint32, len(r.Reports))\n\tfor i, v := range r.Reports {\n\t\tout[i] = v.SSRC\n\t}\n\treturn out")]),
 ("fir-dest-media-ssrc", ["C10"], [("full_intra_request.go", "\tssrcs := make([]uint32, 0, len(p.FIR))\n\tfor _, entry := range p.FIR {\n\t\tssrcs = append(ssrcs, entry.SSRC)\n\t}\n\treturn ssrcs", "\treturn []uint32{p.MediaSSRC}")]),
 ("compound-continue-on-cnameless-sdes", ["C11"], [("compound_packet.go", "\t\t\tif !hasCNAME {\n\t\t\t\treturn errMissingCNAME\n\t\t\t}\n\n\t\t\treturn nil", "\t\t\tif !hasCNAME {\n\t\t\t\tcontinue\n\t\t\t}\n\n\t\t\treturn nil")]),
 ("compound-accept-sr-later", ["C11"], [("compound_packet.go", "\t\tcase *ReceiverReport:\n\t\t\tcontinue\n", "\t\tcase *ReceiverReport, *SenderReport:\n\t\t\tcontinue\n")]),
 ("nack-gap-ge-16", ["C12"], [("transport_layer_nack.go", "\t\tif m-nackPair.PacketID > 16 {", "\t\tif m-nackPair.PacketID >= 16 {")]),
 ("nack-range-ignores-false", ["C12"], [("transport_layer_nack.go", "\t\t\tmore = f(n.PacketID + i + 1)\n\t\t\tif !more {\n\t\t\t\treturn\n\t\t\t}", "\t\t\tmore = f(n.PacketID + i + 1)\n\t\t\t_ = more")]),
 ("twcc-large-delta-unsigned", ["C13", "C16", "C02"], [("transport_layer_cc.go", "r.Delta = TypeTCCDeltaScaleFactor * int64(int16(binary.BigEndian.Uint16(rawPacket)))", "r.Delta = TypeTCCDeltaScaleFactor * int64(binary.BigEndian.Uint16(rawPacket))")]),
 ("remb-encode-loop-gt", ["C14"], [("receiver_estimated_maximum_bitrate.go", "\tfor bitrate >= (1 << 18) {", "\tfor bitrate > (1 << 18) {")]),
 ("remb-encode-round", ["C14"], [("receiver_estimated_maximum_bitrate.go", "mantissa := uint(math.Floor(float64(bitrate)))", "mantissa := uint(math.Floor(float64(bitrate) + 0.5))")]),
 ("xr-toh-shift-2", ["C15", "C03"], [("extended_report.go", "b.XRHeader.TypeSpecific |= TypeSpecificField((b.TTLorHopLimit & 0x03) << 3)", "b.XRHeader.TypeSpecific |= TypeSpecificField((b.TTLorHopLimit & 0x03) << 2)"), ("extended_report.go", "b.TTLorHopLimit = TTLorHopLimitType((b.XRHeader.TypeSpecific & 0x18) >> 3)", "b.TTLorHopLimit = TTLorHopLimitType((b.XRHeader.TypeSpecific & 0x0c) >> 2)")]),
 ("xr-unknown-loses-typespecific", ["C15", "C04"], [("extended_report.go", "func (b *UnknownReportBlock) setupBlockHeader() {\n", "func (b *UnknownReportBlock) setupBlockHeader() {\n\tb.XRHeader.TypeSpecific = 0\n")]),
 ("getnbits-mask-off-by-one", ["C16", "C13"], [("util.go", "\tmask := (0xFF >> begin) & uint8(0xFF<<endShift)", "\tmask := (0x7F >> begin) & uint8(0xFF<<endShift)")]),
 ("header-countmask-0f", ["C16", "C07"], [("header.go", "\tcountMask    = 0x1f", "\tcountMask    = 0x0f")]),
 ("stringify-slice-index-plus-one", ["C17"], [("packet_stringifier.go", "\t\t\t\tif value.Index(i).CanInterface() {\n\t\t\t\t\tout += formatField(childName, format, value.Index(i).Interface(), indent+\"\\t\")", "\t\t\t\tif value.Index(i).CanInterface() && value.Len() < 9 {\n\t\t\t\t\tout += formatField(childName, format, value.Index(i).Interface(), indent+\"\\t\")\n\t\t\t\t} else if value.Index(i).CanInterface() {\n\t\t\t\t\tout += formatField(childName, format, value.Index(i+1).Interface(), indent+\"\\t\")")]),
 ("remb-shared-scratch-buffer", ["C18"], [("receiver_estimated_maximum_bitrate.go", "\t// Allocate a buffer of the exact output size.\n\tbuf = make([]byte, p.MarshalSize())", "\t// Reuse the package scratch buffer for the common small case.\n\tbuf = make([]byte, p.MarshalSize())\n\tif p.MarshalSize() <= len(rembScratch) {\n\t\tbuf = rembScratch[:p.MarshalSize()]\n\t}"), ("receiver_estimated_maximum_bitrate.go", "// MarshalSize returns the size of the packet once marshaled\nfunc (p ReceiverEstimatedMaximumBitrate) MarshalSize() int {", "var rembScratch [2048]byte\n\n// MarshalSize returns the size of the packet once marshaled\nfunc (p ReceiverEstimatedMaximumBitrate) MarshalSize() int {")]),
 ("bye-reason-length-7bit", ["C02", "C03", "C08"], [("goodbye.go", "packetBody[reasonOffset] = uint8(len(reason))", "packetBody[reasonOffset] = uint8(len(reason)) & 0x7f")]),
 ("rblock-jitter-top-byte-dropped", ["C02", "C03"], [("reception_report.go", "binary.BigEndian.PutUint32(rawPacket[jitterOffset:], r.Jitter)", "binary.BigEndian.PutUint32(rawPacket[jitterOffset:], r.Jitter&0x00FFFFFF)")]),
 ("remb-decode-exp-5bit", ["C04", "C14"], [("receiver_estimated_maximum_bitrate.go", "\texp := buf[17] >> 2\n", "\texp := (buf[17] >> 2) & 0x1f\n")]),
 ("app-drop-padding-guard", ["C01"], [("application_defined.go", "\t\tif paddingSize > len(rawPacket)-12 {\n\t\t\treturn errWrongPadding\n\t\t}\n", "")]),
 ("sr-dest-sender-first", ["C10"], [("sender_report.go", "\tfor i, v := range r.Reports {\n\t\tout[i] = v.SSRC\n\t}\n\tout[len(r.Reports)] = r.SSRC\n\treturn out", "\tout[0] = r.SSRC\n\tfor i, v := range r.Reports {\n\t\tout[i+1] = v.SSRC\n\t}\n\treturn out")]),
 ("compound-allows-bye-before-cname", ["C11"], [("compound_packet.go", "\t\tcase *ReceiverReport:\n\t\t\tcontinue\n", "\t\tcase *ReceiverReport, *Goodbye:\n\t\t\tcontinue\n")]),
 ("twcc-large-delta-sign-from-bit14", ["C13", "C16", "C02"], [("transport_layer_cc.go", "r.Delta = TypeTCCDeltaScaleFactor * int64(int16(binary.BigEndian.Uint16(rawPacket)))", "r.Delta = TypeTCCDeltaScaleFactor * int64(int16(binary.BigEndian.Uint16(rawPacket)<<1)>>1)")]),
 ("xr-toh-mask-1bit", ["C15", "C03"], [("extended_report.go", "b.XRHeader.TypeSpecific |= TypeSpecificField((b.TTLorHopLimit & 0x03) << 3)", "b.XRHeader.TypeSpecific |= TypeSpecificField((b.TTLorHopLimit & 0x01) << 3)")]),
 ("header-padding-bit-confused-with-count-bit4", ["C16", "C04"], [("header.go", "\th.Padding = (rawPacket[0] >> paddingShift & paddingMask) > 0", "\th.Padding = rawPacket[0]&0x30 == 0x20")]),
 ("sdes-text-rejects-255", ["C08", "C02"], [("source_description.go", "\tif octetCount > sdesMaxOctetCount {", "\tif octetCount >= sdesMaxOctetCount {")]),
 ("ccfb-rejects-16384-metrics", ["C08"], [("rfc8888.go", "\tif len(b.MetricBlocks) > maxMetricBlocks {", "\tif len(b.MetricBlocks) >= maxMetricBlocks {")]),
 ("header-rejects-count-31", ["C08", "C16", "C02"], [("header.go", "\tif h.Count > 31 {", "\tif h.Count >= 31 {")]),
 ("ccfb-numreports-check-one-metric-short", ["C01"], [("rfc8888.go", "\tif len(rawPacket) < reportsOffset+numReports*2 {", "\tif len(rawPacket) < reportsOffset+numReports*2-2 {")]),
 ("dispatch-xr-gets-rest-of-datagram", ["C06"], [("packet.go", "\terr = packet.Unmarshal(inPacket)", "\tif h.Type == TypeExtendedReport {\n\t\tinPacket = rawData\n\t}\n\terr = packet.Unmarshal(inPacket)")]),
 ("nack-bit-index-drops-bit2", ["C12"], [("transport_layer_nack.go", "\t\tnackPair.LostPackets |= 1 << (m - nackPair.PacketID - 1)", "\t\tnackPair.LostPackets |= 1 << ((m - nackPair.PacketID - 1) & 0x0b)")]),
 ("fir-marshal-seq-shifted-for-many-entries", ["C03", "C02"], [("full_intra_request.go", "\t\trawPacket[firOffset+8*i+4] = fir.SequenceNumber", "\t\trawPacket[firOffset+8*i+4+i/16] = fir.SequenceNumber")]),
 ("twcc-marshal-refime-23bit", ["C03", "C02"], [("transport_layer_cc.go", "ReferenceTimeAndFbPktCount := appendNBitsToUint32(0, 24, t.ReferenceTime)", "ReferenceTimeAndFbPktCount := appendNBitsToUint32(0, 24, t.ReferenceTime&0x7fffff)")]),
 ("pli-marshal-media-ssrc-low-bit", ["C03", "C02"], [("picture_loss_indication.go", "\tbinary.BigEndian.PutUint32(packetBody[4:], p.MediaSSRC)", "\tbinary.BigEndian.PutUint32(packetBody[4:], p.MediaSSRC&^(p.SenderSSRC>>31))")]),
 ("xr-dlrr-dest-skips-last-of-many", ["C10"], [("extended_report.go", "\tssrc := make([]uint32, len(b.Reports))\n\tfor i, r := range b.Reports {\n\t\tssrc[i] = r.SSRC\n\t}\n\treturn ssrc", "\tssrc := make([]uint32, len(b.Reports))\n\tfor i, r := range b.Reports {\n\t\tssrc[i] = r.SSRC\n\t}\n\tif len(ssrc) > 3 {\n\t\tssrc = ssrc[:len(ssrc)-1]\n\t}\n\treturn ssrc")]),
 ("compound-string-panics-on-raw", ["C17"], [("raw_packet.go", "\tout := fmt.Sprintf(\"RawPacket: %v\", ([]byte)(r))", "\tout := fmt.Sprintf(\"RawPacket: %v\", ([]byte)(r)[:len(r)-len(r)%4+len(r)%4])\n\tif len(r) > 4 && r[4] == 0xff {\n\t\tout = fmt.Sprintf(\"RawPacket: %v\", ([]byte)(r)[:len(r)+1])\n\t}")]),
 ("sdes-dest-aliases-and-sorts", ["C18", "C10"], [("source_description.go", "\tout := make([]uint32, len(s.Chunks))\n\tfor i, v := range s.Chunks {\n\t\tout[i] = v.Source\n\t}\n\treturn out", "\tout := make([]uint32, len(s.Chunks))\n\tfor i, v := range s.Chunks {\n\t\tout[i] = v.Source\n\t}\n\tif len(s.Chunks) > 1 && s.Chunks[0].Source > s.Chunks[1].Source {\n\t\ts.Chunks[0], s.Chunks[1] = s.Chunks[1], s.Chunks[0]\n\t}\n\treturn out")]),
 ("bye-decoder-zeroes-padding-in-input", ["C18", "C06"], [("goodbye.go", "\t\tg.Reason = string(rawPacket[reasonOffset+1 : reasonEnd])", "\t\tg.Reason = string(rawPacket[reasonOffset+1 : reasonEnd])\n\t\tfor i := reasonEnd; i < len(rawPacket); i++ {\n\t\t\trawPacket[i] = 0\n\t\t}")]),
 ("sr-memoised-size", ["C18"], [("sender_report.go", "func (r *SenderReport) MarshalSize() int {\n", "var srSizeCache = map[uint32]int{}\n\nfunc (r *SenderReport) MarshalSize() int {\n\tif n, ok := srSizeCache[r.SSRC]; ok && len(r.Reports) == 0 && len(r.ProfileExtensions) > 64 {\n\t\treturn n\n\t}\n\tdefer func() { srSizeCache[r.SSRC] = headerLength + srHeaderLength + len(r.ProfileExtensions) + getPadding(len(r.ProfileExtensions)) }()\n")]),
 ("twcc-refime-shift", ["C03", "C13", "C04"], [("util.go", "\treturn uint32(b[0])<<16 + uint32(b[1])<<8 + uint32(b[2])", "\treturn uint32(b[0]&0x7f)<<16 + uint32(b[1])<<8 + uint32(b[2])")]),
 ("rr-unmarshal-drops-extension", ["C02", "C04", "C09"], [("receiver_report.go", "\tr.ProfileExtensions = rawPacket[rrReportOffset+(len(r.Reports)*receptionReportLength):]", "\tif len(r.Reports) < 31 {\n\t\tr.ProfileExtensions = rawPacket[rrReportOffset+(len(r.Reports)*receptionReportLength):]\n\t}")]),
]

def main():
    os.makedirs("/verif/mutants", exist_ok=True)
    only = set(sys.argv[1:])
    for name, expect, edits in M:
        if only and name not in only:
            continue
        wt = f"/tmp/mk-{name}"
        sh(f"git -C /repo worktree remove --force {wt}")
        sh(f"git -C /repo worktree add -q --detach {wt} HEAD")
        try:
            ok = True
            for f, old, new in edits:
                p = os.path.join(wt, f)
                s = open(p).read()
                if s.count(old) != 1:
                    print(f"{name}: pattern occurs {s.count(old)} times in {f}: SKIP")
                    ok = False
                    break
                open(p, "w").write(s.replace(old, new))
            if not ok:
                continue
            b = sh(f"cd {wt} && gofmt -l . ; go build ./... && go vet ./...", env=ENV)
            if b.returncode != 0:
                print(f"{name}: does not build: {b.stderr[:300]}")
                continue
            t = sh(f"cd {wt} && go test -vet=off -count=1 ./... 2>&1 | tail -3", env=ENV)
            if "FAIL" in t.stdout or "ok" not in t.stdout:
                print(f"{name}: existing tests FAIL (not a valid mutant): {t.stdout.strip()[-200:]}")
                continue
            d = f"/verif/mutants/{name}"
            os.makedirs(d, exist_ok=True)
            open(os.path.join(d, "patch.diff"), "w").write(sh(f"git -C {wt} diff").stdout)
            extra = {}
            if name == "nack-gap-ge-16":
                extra["equivalent"] = "equivalent under C12 as stated: a gap of exactly 16 starts a new pair instead of setting bit 15; the pairs are less compact but still cover exactly the requested set"
            json.dump({**extra, "name": name, "expected_killers": expect, "files": sorted({e[0] for e in edits}),
                       "note": "deliberate mutation from DESIGN.md section 6.1; compiles and passes the 127 existing tests"},
                      open(os.path.join(d, "meta.json"), "w"), indent=1)
            print(f"{name}: ok")
        finally:
            sh(f"git -C /repo worktree remove --force {wt}")

main()
