#!/usr/bin/env python3
"""Runs the quick (or thorough) checks against every seeded change, each on its own scratch
worktree of /repo (created under /tmp and removed afterwards), several in parallel.
/repo itself and /verif/evidence are never touched (VCHECK_REPO / VCHECK_EVIDENCE_DIR).

usage: seedmatrix.py [--tier quick] [--jobs 4] [--props C01,...] <seeded-dir>...
Writes <seeded-dir>/result.json and prints the detection matrix.
"""
import json, os, subprocess, sys, time, shutil
from concurrent.futures import ThreadPoolExecutor

ENV = dict(os.environ, GOFLAGS="-mod=mod", GOPROXY="off", GOSUMDB="off", GOTOOLCHAIN="local")
ALL = [f"C{i:02d}" for i in range(1, 19)]

def sh(cmd, **kw):
    return subprocess.run(cmd, shell=True, text=True, capture_output=True, **kw)

def one(d, tier, props):
    d = os.path.abspath(d)
    name = os.path.basename(d)
    wt = f"/tmp/sm-{name}-{os.getpid()}"
    out = f"/tmp/sm-out-{name}-{os.getpid()}"
    sh(f"git -C /repo worktree remove --force {wt}")
    r = sh(f"git -C /repo worktree add -q --detach {wt} HEAD")
    if r.returncode != 0:
        return name, {"error": r.stderr}
    res = {"tier": tier, "base": sh("git -C /repo rev-parse --short HEAD").stdout.strip(), "checks": {}}
    try:
        r = sh(f"git -C {wt} apply {d}/patch.diff")
        if r.returncode != 0:
            return name, {"error": "patch does not apply: " + r.stderr}
        t = sh(f"cd {wt} && go build ./... && go test -vet=off -count=1 ./... 2>&1 | tail -3", env=ENV)
        res["existing_tests_pass"] = "ok" in t.stdout and "FAIL" not in t.stdout
        os.makedirs(out, exist_ok=True)
        env = dict(ENV, VCHECK_REPO=wt, VCHECK_EVIDENCE_DIR=out, VCHECK_REPLAY_DIR=out, VCHECK_TAG="-" + name)
        for p in props:
            t0 = time.time()
            r = sh(f"/verif/bin/vcheck run --prop {p} --tier {tier}", env=env, cwd="/verif")
            viol = [l for l in r.stdout.splitlines() if l.startswith("VIOLATION")]
            first = [l for l in r.stdout.splitlines() if l.startswith("property=")]
            res["checks"][p] = {"exit": r.returncode, "violation": bool(viol), "wall_s": round(time.time() - t0, 1),
                                "message": (first[0][:500] if first else ("" if r.returncode == 0 else r.stdout[-300:]))}
    finally:
        sh(f"git -C /repo worktree remove --force {wt}")
        shutil.rmtree(out, ignore_errors=True)
        sh(f"rm -rf /verif/.build/*-{name}")
    # a run restricted with --props refreshes those rows of an existing result for the same base
    rp = os.path.join(d, "result.json")
    if len(props) < len(ALL) and os.path.exists(rp):
        prev = json.load(open(rp))
        if prev.get("base") == res["base"] and prev.get("tier") == tier:
            merged = dict(prev.get("checks", {}))
            merged.update(res["checks"])
            res["checks"] = {p: merged[p] for p in sorted(merged)}
    res["detected_by"] = [p for p, v in res["checks"].items() if v.get("violation")]
    res["inconclusive"] = [p for p, v in res["checks"].items() if v.get("exit") == 2]
    json.dump(res, open(os.path.join(d, "result.json"), "w"), indent=1)
    return name, res

def main():
    args = sys.argv[1:]
    tier, jobs, props, dirs = "quick", 4, ALL, []
    while args:
        a = args.pop(0)
        if a == "--tier": tier = args.pop(0)
        elif a == "--jobs": jobs = int(args.pop(0))
        elif a == "--props": props = args.pop(0).split(",")
        else: dirs.append(a)
    with ThreadPoolExecutor(jobs) as ex:
        for name, res in ex.map(lambda d: one(d, tier, props), dirs):
            if "error" in res:
                print(name, "ERROR", res["error"]); continue
            print(f"{name}: tests_pass={res['existing_tests_pass']} detected_by={res['detected_by']} inconclusive={res['inconclusive']}", flush=True)

main()
