#!/usr/bin/env python3
"""usage: mutseeds.py <seed> [--workers 5]   Re-runs every automatic mutant that a check reported (current
/repo tree, latest result per mutant) against that same check at another VERIF_SEED: how many of the
detections depend on the seed? Results: mutants-auto/seedcheck-<seed>.json."""
import sys, os, json, subprocess, shutil, threading
from concurrent.futures import ThreadPoolExecutor
ENV = dict(os.environ, GOFLAGS="-mod=mod", GOPROXY="off", GOSUMDB="off", GOTOOLCHAIN="local")
seed = sys.argv[1]; workers = 5
def sh(cmd, **kw): return subprocess.run(cmd, shell=True, text=True, capture_output=True, **kw)
base = sh("git -C /repo rev-parse --short HEAD").stdout.strip()
key = lambda m: f"{m['file']}:{m['line']}:{m['col']}:{m['op']}:{m['repl']}"
main, follow = {}, {}
for l in open("/verif/mutants-auto/results.jsonl"):
    r = json.loads(l)
    if r["base"] != base: continue
    if "followup_of" in r: follow[r["followup_of"]] = r
    else: main[key(r)] = r
killed = {}
for k, r in main.items():
    fu = follow.get(k)
    if r["status"] == "killed": killed[k] = r["by"]
    elif r["status"] == "survived" and fu and fu["status"] == "killed": killed[k] = fu["by"]
ms = {key(m): m for m in (json.loads(l) for l in sh("/verif/bin/mutgen list /repo").stdout.splitlines())}
lock = threading.Lock(); free = list(range(workers)); out = {}
def one(item):
    k, by = item
    with lock: w = free.pop()
    d = f"/tmp/ms-{os.getpid()}-{w}"
    try:
        if not os.path.exists(d):
            os.makedirs(d); sh(f"rsync -a --exclude .git /repo/ {d}/repo/")
        m = ms[k]
        sh(f"/verif/bin/mutgen apply /repo {m['id']} {d}/repo")
        env = dict(ENV, VCHECK_REPO=f"{d}/repo", VCHECK_TAG=f"-ms{w}", VCHECK_EVIDENCE_DIR=f"{d}/ev", VCHECK_REPLAY_DIR=f"{d}/rp", VERIF_SEED=seed)
        r = sh(f"/verif/bin/vcheck run --prop {by} --tier quick", env=env, cwd="/verif")
        res = "VIOLATION" if "VIOLATION" in r.stdout else f"exit{r.returncode}"
        shutil.copy(f"/repo/{m['file']}", f"{d}/repo/{m['file']}")
    finally:
        with lock: free.append(w)
    with lock:
        out[k] = {"by": by, "result": res}
        if res != "VIOLATION": print(k, by, res, flush=True)
    return res
with ThreadPoolExecutor(workers) as ex:
    rs = list(ex.map(one, sorted(killed.items())))
for w in range(workers): shutil.rmtree(f"/tmp/ms-{os.getpid()}-{w}", ignore_errors=True)
sh("rm -rf /verif/.build/*-ms[0-9]*")
json.dump(out, open(f"/verif/mutants-auto/seedcheck-{seed}.json", "w"), indent=1, sort_keys=True)
print(f"{len(rs)} reported mutants re-run at VERIF_SEED={seed}: {rs.count('VIOLATION')} reported again, {len(rs)-rs.count('VIOLATION')} not")
