#!/usr/bin/env python3
"""Automatic first-order mutation campaign (DESIGN.md §8.4).

For every mutant bin/mutgen enumerates in /repo's non-test sources:
  1. apply it to a private scratch copy of /repo (never to /repo),
  2. discard it if it does not compile or the repository's own tests notice it,
  3. build the checks' test binary once against the copy,
  4. run the quick tier of the checks whose quick tier executes the mutated block
     (mutants-auto/propcov.json), cheapest first, and stop at the first VIOLATION.
Results are appended to mutants-auto/results.jsonl (resumable: ids already present are skipped).

usage: mutcampaign.py [--repo-rev <commit>] [--keys followup.json] [--workers 5] [--ids 1,2,3] [--ops binop,lit+1] [--files a.go,b.go] [--sample N] [--all-props] [--redo-survivors]
"""
import os, sys, json, subprocess, shutil, time, random, threading
from concurrent.futures import ThreadPoolExecutor

ENV = dict(os.environ, GOFLAGS="-mod=mod", GOPROXY="off", GOSUMDB="off", GOTOOLCHAIN="local")
ALL = [f"C{i:02d}" for i in range(1, 19)]
RES = "/verif/mutants-auto/results.jsonl"
lock = threading.Lock()

def sh(cmd, timeout=None, **kw):
    try:
        return subprocess.run(cmd, shell=True, text=True, capture_output=True, timeout=timeout, **kw)
    except subprocess.TimeoutExpired as e:
        class R: pass
        r = R(); r.returncode = 124; r.stdout = (e.stdout or b"").decode() if isinstance(e.stdout, bytes) else (e.stdout or ""); r.stderr = "timeout"
        return r

def parse_block(b):
    f, rest = b.split(":")
    s, e = rest.split(",")
    sl, sc = map(int, s.split(".")); el, ec = map(int, e.split("."))
    return f, (sl, sc), (el, ec)

class Cov:
    def __init__(self):
        d = json.load(open("/verif/mutants-auto/propcov.json"))
        self.wall = d["wall_s"]
        self.blocks = {}
        for b in d["blocks"]:
            f, s, e = parse_block(b)
            self.blocks.setdefault(f, []).append((s, e, b))
        self.per = {p: set(v) for p, v in d["per_property"].items()}
    def props_for(self, m):
        pos = (m["line"], m["col"])
        best = None
        for s, e, b in self.blocks.get(m["file"], []):
            if s <= pos <= e:
                if best is None or (e[0] - s[0], e[1]) < (best[1][0] - best[0][0], best[1][1]):
                    best = (s, e, b)
        if best is None:
            return None  # not inside any statement block (declaration): every check may matter
        ps = [p for p in ALL if best[2] in self.per[p]]
        return sorted(ps, key=lambda p: self.wall.get(p, 99))

SNAP = None

REV = None

def snapshot():
    """The checks are built from a copy of /verif's sources taken when the campaign starts, so
    that work on /verif can go on while it runs."""
    global SNAP
    SNAP = f"/tmp/mc-{os.getpid()}-src"
    os.makedirs(SNAP)
    sh(f"rsync -a --exclude .git --exclude .build --exclude bin --exclude evidence --exclude replays --exclude seeded --exclude mutants --exclude mutants-auto /verif/ {SNAP}/")
    if REV:
        os.makedirs(f"{SNAP}/repo0")
        sh(f"git -C /repo archive {REV} | tar -x -C {SNAP}/repo0")
    else:
        sh(f"rsync -a --exclude .git /repo/ {SNAP}/repo0/")
    os.makedirs(f"{SNAP}/bin", exist_ok=True)
    shutil.copy("/verif/bin/vcheck", f"{SNAP}/bin/vcheck"); shutil.copy("/verif/bin/mutgen", f"{SNAP}/bin/mutgen")

def worker_dir(w):
    d = f"/tmp/mc-{os.getpid()}-{w}"
    if not os.path.exists(d):
        os.makedirs(d)
        sh(f"rsync -a {SNAP}/repo0/ {d}/repo/")
        mod = open(f"{SNAP}/go.mod").read().replace("=> /repo", f"=> {d}/repo")
        open(f"{d}/alt.mod", "w").write(mod)
        shutil.copy(f"{SNAP}/go.sum", f"{d}/alt.sum")
    return d

def run_one(m, w, cov, all_props):
    d = worker_dir(w)
    repo = f"{d}/repo"
    t0 = time.time()
    res = dict(m, status="?", by=None, tried=[], msg="")
    try:
        r = sh(f"{SNAP}/bin/mutgen apply {SNAP}/repo0 {m['id']} {repo}")
        if r.returncode != 0:
            res["status"] = "apply-failed"; res["msg"] = r.stderr[-200:]; return res
        r = sh("go build ./...", cwd=repo, env=ENV, timeout=120)
        if r.returncode != 0:
            res["status"] = "nocompile"; return res
        r = sh("go test -count=1 -vet=off ./... 2>&1 | tail -5", cwd=repo, env=ENV, timeout=180)
        if r.returncode == 124 or "FAIL" in r.stdout or "ok" not in r.stdout:
            res["status"] = "existing-tests"; return res
        props = None if all_props else cov.props_for(m)
        if props is None:
            props = sorted(ALL, key=lambda p: cov.wall.get(p, 99))
        if not props:
            res["status"] = "uncovered"; return res
        r = sh(f"go test -c -tags verif -vet=off -o {d}/checks.test -modfile {d}/alt.mod ./checks", cwd=SNAP, env=ENV, timeout=300)
        if r.returncode != 0:
            res["status"] = "checks-nocompile"; res["msg"] = (r.stdout + r.stderr)[-300:]; return res
        env = dict(ENV, VCHECK_REPO=repo, VCHECK_BIN=f"{d}/checks.test", VCHECK_TAG=f"-mc{os.getpid()}-{w}",
                   VCHECK_EVIDENCE_DIR=f"{d}/ev", VCHECK_REPLAY_DIR=f"{d}/rp", VERIF_SEED="1", VCHECK_KNOWN_FILE=f"{SNAP}/known_findings.json")
        for p in props:
            if p == "C18":
                r = sh(f"go test -c -tags verif -vet=off -race -o {d}/checks.race.test -modfile {d}/alt.mod ./checks", cwd=SNAP, env=ENV, timeout=600)
                if r.returncode != 0:
                    res["tried"].append([p, "race-build-failed"]); continue
                env["VCHECK_RACEBIN"] = f"{d}/checks.race.test"
            r = sh(f"{SNAP}/bin/vcheck run --prop {p} --tier quick", cwd="/verif", env=env, timeout=900)
            viol = [l for l in r.stdout.splitlines() if l.startswith("VIOLATION")]
            first = [l for l in r.stdout.splitlines() if l.startswith("property=")]
            if viol:
                res["status"] = "killed"; res["by"] = p; res["msg"] = first[0][:300] if first else ""
                res["tried"].append([p, "VIOLATION"])
                return res
            res["tried"].append([p, "ok" if r.returncode == 0 else f"exit{r.returncode}"])
        res["status"] = "survived"
        return res
    finally:
        res["secs"] = round(time.time() - t0, 1)
        shutil.copy(f"{SNAP}/repo0/{m['file']}", f"{repo}/{m['file']}")
        shutil.rmtree(f"{d}/ev", ignore_errors=True); shutil.rmtree(f"{d}/rp", ignore_errors=True)
        sh(f"rm -rf /verif/.build/*-mc{os.getpid()}-{w}")

def main():
    args = sys.argv[1:]
    workers, ids, ops, files, sample, all_props, redo, keys = 5, None, None, None, None, False, False, None
    while args:
        a = args.pop(0)
        if a == "--workers": workers = int(args.pop(0))
        elif a == "--ids": ids = set(int(x) for x in args.pop(0).split(","))
        elif a == "--ops": ops = set(args.pop(0).split(","))
        elif a == "--files": files = set(args.pop(0).split(","))
        elif a == "--sample": sample = int(args.pop(0))
        elif a == "--all-props": all_props = True
        elif a == "--redo-survivors": redo = True
        elif a == "--keys": keys = json.load(open(args.pop(0)))
        elif a == "--repo-rev":
            global REV
            REV = args.pop(0)
    if sh("git -C /repo status --porcelain").stdout.strip():
        print("/repo has local changes; refusing"); sys.exit(2)
    base = sh(f"git -C /repo rev-parse --short {REV or 'HEAD'}").stdout.strip()
    snapshot()
    ms = [json.loads(l) for l in sh(f"{SNAP}/bin/mutgen list {SNAP}/repo0").stdout.splitlines()]
    mkey = lambda m: f"{m['file']}:{m['line']}:{m['col']}:{m['op']}:{m['repl']}"
    done = {}
    if os.path.exists(RES):
        for l in open(RES):
            r = json.loads(l)
            if r.get("base") == base and "followup_of" not in r:
                done[mkey(r)] = r
    todo = []
    if keys is not None:
        # follow-up of earlier survivors on the current tree: {key on this tree: key in the earlier run}
        for m in ms:
            k = f"{m['file']}:{m['line']}:{m['col']}:{m['op']}:{m['repl']}"
            if k in keys:
                m["followup_of"] = keys[k]
                todo.append(m)
        ms_iter = []
    else:
        ms_iter = ms
    for m in ms_iter:
        if ids is not None and m["id"] not in ids: continue
        if ops is not None and m["op"] not in ops: continue
        if files is not None and m["file"] not in files: continue
        if mkey(m) in done and not (redo and done[mkey(m)]["status"] == "survived") and ids is None: continue
        todo.append(m)
    if sample is not None:
        random.Random(1).shuffle(todo); todo = sorted(todo[:sample], key=lambda m: m["id"])
    print(f"{len(ms)} mutants, {len(done)} done on base {base}, {len(todo)} to run", flush=True)
    cov = Cov()
    free = list(range(workers))
    def task(m):
        with lock: w = free.pop()
        try:
            r = run_one(m, w, cov, all_props)
        finally:
            with lock: free.append(w)
        r["base"] = base
        with lock:
            with open(RES, "a") as f: f.write(json.dumps(r) + "\n")
            print(f"{r['id']:5d} {r['file']}:{r['line']} {r['op']:10s} {r['status']:15s} {r['by'] or ''} {r['secs']}s", flush=True)
        return r
    try:
        with ThreadPoolExecutor(workers) as ex:
            list(ex.map(task, todo))
    finally:
        for w in range(workers):
            shutil.rmtree(f"/tmp/mc-{os.getpid()}-{w}", ignore_errors=True)
        shutil.rmtree(SNAP, ignore_errors=True)

main()
