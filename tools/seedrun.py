#!/usr/bin/env python3
"""Runs the checks against a seeded change.

usage: seedrun.py <seeded-dir> [--props C01,C05,...] [--tier quick]

Applies <seeded-dir>/patch.diff to /repo (git apply), runs the selected checks' quick (or
thorough) commands, records which report a VIOLATION, and ALWAYS restores /repo afterwards
(git checkout -- .). Nothing is ever committed to /repo. Writes <seeded-dir>/result.json.
"""
import json, os, subprocess, sys, time

def sh(cmd, **kw):
    return subprocess.run(cmd, shell=True, text=True, capture_output=True, **kw)

def main():
    d = os.path.abspath(sys.argv[1])
    props = [f"C{i:02d}" for i in range(1, 19)]
    tier = "quick"
    args = sys.argv[2:]
    while args:
        a = args.pop(0)
        if a == "--props":
            props = args.pop(0).split(",")
        elif a == "--tier":
            tier = args.pop(0)
    st = sh("git -C /repo status --porcelain").stdout.strip()
    if st:
        print("refusing: /repo is not clean:\n" + st)
        sys.exit(2)
    env = dict(os.environ, GOFLAGS="-mod=mod", GOPROXY="off", GOSUMDB="off", GOTOOLCHAIN="local")
    r = sh(f"git -C /repo apply {d}/patch.diff")
    if r.returncode != 0:
        print("patch does not apply:", r.stderr)
        sys.exit(2)
    res = {"tier": tier, "checks": {}}
    # evidence files are rewritten by every run: keep the clean-tree evidence aside and put it back
    sh("rm -rf /verif/.build/evidence.keep && mkdir -p /verif/.build && cp -r /verif/evidence /verif/.build/evidence.keep")
    try:
        b = sh("cd /repo && go build ./... ", env=env)
        res["builds"] = b.returncode == 0
        t = sh("cd /repo && go test -vet=off -count=1 ./... 2>&1 | tail -3", env=env)
        res["existing_tests_pass"] = "ok" in t.stdout and "FAIL" not in t.stdout
        for p in props:
            t0 = time.time()
            r = sh(f"/verif/bin/vcheck run --prop {p} --tier {tier}", env=env, cwd="/verif")
            viol = [l for l in r.stdout.splitlines() if l.startswith("VIOLATION")]
            first = [l for l in r.stdout.splitlines() if l.startswith("property=")]
            res["checks"][p] = {"exit": r.returncode, "violation": bool(viol), "wall_s": round(time.time() - t0, 1),
                                "message": (first[0][:400] if first else "")}
            print(p, "exit", r.returncode, "VIOLATION" if viol else "", (first[0][:200] if first else ""), flush=True)
    finally:
        sh("git -C /repo checkout -- . && git -C /repo clean -fdq")
        sh("rm -rf /verif/evidence && mv /verif/.build/evidence.keep /verif/evidence")
        st = sh("git -C /repo status --porcelain").stdout.strip()
        if st:
            print("WARNING: /repo not clean after restore:", st)
    res["detected_by"] = [p for p, v in res["checks"].items() if v["violation"]]
    json.dump(res, open(os.path.join(d, "result.json"), "w"), indent=1)
    print("detected by:", res["detected_by"])

main()
