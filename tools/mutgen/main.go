// mutgen enumerates first-order mutants of the non-test sources of a Go package directory and
// applies one of them. It is used by tools/mutcampaign.py to measure which checks notice which
// small changes of pion/rtcp (DESIGN.md §8.4); it never writes into /repo.
//
//	mutgen list  <pkgdir>                  -> JSON lines {id,file,line,col,op,orig,repl}
//	mutgen apply <pkgdir> <id> <dstdir>    -> writes the mutated file to <dstdir>/<file>
package main

import (
	"bytes"
	"encoding/json"
	"fmt"
	"go/ast"
	"go/format"
	"go/parser"
	"go/token"
	"os"
	"path/filepath"
	"sort"
	"strconv"
	"strings"
)

type mutant struct {
	ID   int    `json:"id"`
	File string `json:"file"`
	Line int    `json:"line"`
	Col  int    `json:"col"`
	Op   string `json:"op"`
	Orig string `json:"orig"`
	Repl string `json:"repl"`
	// apply performs the mutation on the (freshly parsed) tree
	apply func()
}

var swaps = map[token.Token][]token.Token{
	token.LSS: {token.LEQ}, token.LEQ: {token.LSS}, token.GTR: {token.GEQ}, token.GEQ: {token.GTR},
	token.EQL: {token.NEQ}, token.NEQ: {token.EQL},
	token.LAND: {token.LOR}, token.LOR: {token.LAND},
	token.ADD: {token.SUB}, token.SUB: {token.ADD}, token.MUL: {token.QUO}, token.QUO: {token.MUL},
	token.SHL: {token.SHR}, token.SHR: {token.SHL}, token.AND: {token.OR}, token.OR: {token.AND},
	token.REM: {token.QUO},
}

func src(fset *token.FileSet, n ast.Node) string {
	var b bytes.Buffer
	_ = format.Node(&b, fset, n)
	s := b.String()
	if len(s) > 80 {
		s = s[:80] + "..."
	}
	return strings.ReplaceAll(s, "\n", " ")
}

// enumerate walks one file in a fixed order and returns its mutants.
func enumerate(fset *token.FileSet, f *ast.File, name string) []*mutant {
	var out []*mutant
	add := func(n ast.Node, op, repl string, apply func()) {
		p := fset.Position(n.Pos())
		out = append(out, &mutant{File: name, Line: p.Line, Col: p.Column, Op: op, Orig: src(fset, n), Repl: repl, apply: apply})
	}
	inConst := map[ast.Node]bool{}
	narrowed := map[ast.Node]bool{}
	ast.Inspect(f, func(n ast.Node) bool {
		if g, ok := n.(*ast.GenDecl); ok && g.Tok == token.IMPORT {
			return false
		}
		switch x := n.(type) {
		case *ast.Field:
			if x.Tag != nil {
				inConst[x.Tag] = true
			}
		case *ast.BinaryExpr:
			for _, to := range swaps[x.Op] {
				x, from, to := x, x.Op, to
				if from == token.ADD {
					// string concatenation has no '-'
					if l, ok := x.X.(*ast.BasicLit); ok && l.Kind == token.STRING {
						continue
					}
					if l, ok := x.Y.(*ast.BasicLit); ok && l.Kind == token.STRING {
						continue
					}
				}
				add(x, "binop", from.String()+" -> "+to.String(), func() { x.Op = to })
			}
		case *ast.UnaryExpr:
			if x.Op == token.NOT {
				add(x, "not", "!(!e)", func() { x.X = &ast.UnaryExpr{Op: token.NOT, X: &ast.ParenExpr{X: x.X}} })
			}
		case *ast.BasicLit:
			if x.Kind == token.INT && !inConst[x] {
				v, err := strconv.ParseInt(x.Value, 0, 64)
				if err == nil {
					x, orig := x, x.Value
					render := func(n int64) string {
						if strings.HasPrefix(orig, "0x") || strings.HasPrefix(orig, "0X") {
							return fmt.Sprintf("0x%X", n)
						}
						return strconv.FormatInt(n, 10)
					}
					add(x, "lit+1", render(v+1), func() { x.Value = render(v + 1) })
					if v > 0 {
						add(x, "lit-1", render(v-1), func() { x.Value = render(v - 1) })
					}
					if v > 1 {
						add(x, "lit0", "0", func() { x.Value = "0" })
					}
				}
			}
		case *ast.IfStmt:
			add(x.Cond, "if-false", "(cond) && false", func() {
				x.Cond = &ast.BinaryExpr{X: &ast.ParenExpr{X: x.Cond}, Op: token.LAND, Y: ast.NewIdent("false")}
			})
			add(x.Cond, "if-true", "(cond) || true", func() {
				x.Cond = &ast.BinaryExpr{X: &ast.ParenExpr{X: x.Cond}, Op: token.LOR, Y: ast.NewIdent("true")}
			})
		case *ast.BlockStmt:
			for i, s := range x.List {
				i := i
				switch st := s.(type) {
				case *ast.AssignStmt:
					if st.Tok != token.DEFINE {
						add(st, "del-assign", "(deleted)", func() { x.List[i] = &ast.EmptyStmt{Semicolon: st.Pos(), Implicit: false} })
					}
				case *ast.ExprStmt:
					add(st, "del-call", "(deleted)", func() { x.List[i] = &ast.EmptyStmt{Semicolon: st.Pos(), Implicit: false} })
				case *ast.IncDecStmt:
					add(st, "del-incdec", "(deleted)", func() { x.List[i] = &ast.EmptyStmt{Semicolon: st.Pos(), Implicit: false} })
				}
			}
		case *ast.CaseClause:
			for i, s := range x.Body {
				i := i
				if st, ok := s.(*ast.AssignStmt); ok && st.Tok != token.DEFINE {
					add(st, "del-assign", "(deleted)", func() { x.Body[i] = &ast.EmptyStmt{Semicolon: st.Pos(), Implicit: false} })
				}
			}
		case *ast.CallExpr:
			// int(e) -> int(uint16(e)), len(e) -> int(uint16(len(e))): the 16-bit truncation this
			// code base is prone to
			if id, ok := x.Fun.(*ast.Ident); ok && len(x.Args) == 1 && !narrowed[x] {
				wrap := func(op, inner string) {
					add(x, op, id.Name+"("+inner+"(...))", func() {
						x.Args[0] = &ast.CallExpr{Fun: ast.NewIdent(inner), Args: []ast.Expr{x.Args[0]}}
					})
				}
				switch id.Name {
				case "int":
					wrap("trunc16", "uint16")
				case "uint16":
					wrap("narrow8", "uint8")
				case "uint32", "uint64", "int64":
					wrap("narrow16", "uint16")
				case "len":
					// len(e) -> int(uint16(len(e))): a length kept in 16 bits
					add(x, "len16", "int(uint16(len(...)))", func() {
						inner := &ast.CallExpr{Fun: ast.NewIdent("len"), Args: x.Args}
						x.Fun = ast.NewIdent("int")
						x.Args = []ast.Expr{&ast.CallExpr{Fun: ast.NewIdent("uint16"), Args: []ast.Expr{inner}}}
					})
				}
			}
		}
		return true
	})
	return out
}

func load(dir string) (*token.FileSet, map[string]*ast.File, []string) {
	fset := token.NewFileSet()
	files := map[string]*ast.File{}
	var names []string
	ents, err := os.ReadDir(dir)
	if err != nil {
		panic(err)
	}
	for _, e := range ents {
		n := e.Name()
		if !strings.HasSuffix(n, ".go") || strings.HasSuffix(n, "_test.go") || n == "doc.go" || n == "errors.go" {
			continue
		}
		f, err := parser.ParseFile(fset, filepath.Join(dir, n), nil, parser.ParseComments)
		if err != nil {
			panic(err)
		}
		files[n] = f
		names = append(names, n)
	}
	sort.Strings(names)
	return fset, files, names
}

func all(dir string) (*token.FileSet, map[string]*ast.File, []*mutant) {
	fset, files, names := load(dir)
	var ms []*mutant
	for _, n := range names {
		ms = append(ms, enumerate(fset, files[n], n)...)
	}
	for i, m := range ms {
		m.ID = i
	}
	return fset, files, ms
}

func main() {
	if len(os.Args) < 3 {
		fmt.Fprintln(os.Stderr, "usage: mutgen list <pkgdir> | mutgen apply <pkgdir> <id> <dstdir>")
		os.Exit(2)
	}
	switch os.Args[1] {
	case "list":
		_, _, ms := all(os.Args[2])
		enc := json.NewEncoder(os.Stdout)
		for _, m := range ms {
			_ = enc.Encode(m)
		}
	case "apply":
		id, _ := strconv.Atoi(os.Args[3])
		fset, files, ms := all(os.Args[2])
		if id < 0 || id >= len(ms) {
			fmt.Fprintln(os.Stderr, "no such mutant")
			os.Exit(2)
		}
		m := ms[id]
		m.apply()
		var b bytes.Buffer
		if err := format.Node(&b, fset, files[m.File]); err != nil {
			fmt.Fprintln(os.Stderr, err)
			os.Exit(2)
		}
		if err := os.WriteFile(filepath.Join(os.Args[4], m.File), b.Bytes(), 0o644); err != nil {
			fmt.Fprintln(os.Stderr, err)
			os.Exit(2)
		}
		j, _ := json.Marshal(m)
		fmt.Println(string(j))
	}
}
