#!/usr/bin/env python3
"""usage: mutone.py <props,comma> <file:line:col:op:repl> ...   (keys as printed by bin/mutgen list / MUTATIONS-AUTO.md)
Applies one automatic mutant of the current /repo tree to a scratch copy and runs the quick tier of the given checks."""
import sys, json, subprocess, os, shutil
ENV = dict(os.environ, GOFLAGS="-mod=mod", GOPROXY="off", GOSUMDB="off", GOTOOLCHAIN="local")
props = sys.argv[1].split(",")
ms = [json.loads(l) for l in subprocess.run("/verif/bin/mutgen list /repo", shell=True, capture_output=True, text=True).stdout.splitlines()]
bykey = {f"{m['file']}:{m['line']}:{m['col']}:{m['op']}:{m['repl']}": m for m in ms}
for key in sys.argv[2:]:
    m = bykey.get(key)
    if not m:
        print("no such mutant", key); continue
    d = f"/tmp/mutone-{os.getpid()}"
    shutil.rmtree(d, ignore_errors=True); os.makedirs(d)
    subprocess.run(f"rsync -a --exclude .git /repo/ {d}/repo/", shell=True)
    subprocess.run(f"/verif/bin/mutgen apply /repo {m['id']} {d}/repo", shell=True, capture_output=True)
    t = subprocess.run("go build ./... && go test -count=1 -vet=off ./... 2>&1 | tail -1", shell=True, cwd=f"{d}/repo", env=ENV, capture_output=True, text=True)
    print(key, "| existing tests:", t.stdout.strip()[:40])
    env = dict(ENV, VERIF_SEED=os.environ.get("VERIF_SEED", "1"), VCHECK_REPO=f"{d}/repo", VCHECK_TAG="-mutone", VCHECK_EVIDENCE_DIR=f"{d}/ev", VCHECK_REPLAY_DIR=f"{d}/rp")
    for p in props:
        r = subprocess.run(f"/verif/bin/vcheck run --prop {p} --tier quick", shell=True, cwd="/verif", env=env, capture_output=True, text=True)
        lines = [l for l in r.stdout.splitlines() if l.startswith("property=") or l.startswith("OK ") or l.startswith("INCONCLUSIVE")]
        print("   ", p, "exit", r.returncode, (lines[0][:260] if lines else r.stdout[-200:]))
    shutil.rmtree(d, ignore_errors=True)
    subprocess.run("rm -rf /verif/.build/*-mutone", shell=True)
