#!/bin/sh
# usage: verifyseed.sh <dir-with patch.diff + seeded_demo_test.go + meta.json>
# Confirms, in a fresh scratch worktree of /repo (removed afterwards), that the change
# compiles, passes the existing suite, and that the demonstration fails with it and passes without it.
set -u
D=$(cd "$1" && pwd)
export GOFLAGS=-mod=mod GOPROXY=off GOSUMDB=off GOTOOLCHAIN=local
W=/tmp/vs-$$
git -C /repo worktree add -q --detach $W HEAD || exit 2
trap 'git -C /repo worktree remove --force $W >/dev/null 2>&1' EXIT
if [ -f $D/seeded_demo_test.go.txt ]; then cp $D/seeded_demo_test.go.txt $W/seeded_demo_test.go; else cp $D/seeded_demo_test.go $W/; fi
RACE=""
if grep -q -- "-race" $D/meta.json; then RACE="-race"; fi
cd $W
echo "== demo WITHOUT the change (must pass)"
if go test $RACE -count=1 -run TestSeededDemo ./... >/tmp/vs-$$.a 2>&1; then echo "  pass"; A=ok; else echo "  FAIL (bad)"; tail -5 /tmp/vs-$$.a; A=bad; fi
git apply $D/patch.diff || { echo "patch does not apply"; exit 2; }
echo "== build + vet with the change"
if go build ./... && go vet ./... >/dev/null 2>&1; then echo "  ok"; B=ok; else echo "  FAIL (bad)"; B=bad; fi
echo "== existing suite with the change (must pass)"
if go test -vet=off -count=1 -skip TestSeededDemo ./... >/tmp/vs-$$.b 2>&1; then echo "  pass"; C=ok; else echo "  FAIL (bad)"; tail -5 /tmp/vs-$$.b; C=bad; fi
echo "== demo WITH the change (must fail)"
if go test $RACE -count=1 -run TestSeededDemo ./... >/tmp/vs-$$.c 2>&1; then echo "  pass (bad)"; E=bad; else echo "  fails as required"; E=ok; fi
rm -f /tmp/vs-$$.a /tmp/vs-$$.b /tmp/vs-$$.c
cd /
if [ "$A$B$C$E" = "okokokok" ]; then echo "VERIFIED"; exit 0; else echo "NOT VERIFIED"; exit 1; fi
