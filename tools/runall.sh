#!/bin/sh
# usage: runall.sh <quick|thorough> [seed ...]   - runs every registered check on /repo's current
# tree at the given VERIF_SEED values and prints one line per run (exit status, wall time).
TIER=${1:-quick}; shift
SEEDS=${*:-1}
export GOFLAGS=-mod=mod GOPROXY=off GOSUMDB=off GOTOOLCHAIN=local
cd /verif
for s in $SEEDS; do
  for i in 01 02 03 04 05 06 07 08 09 10 11 12 13 14 15 16 17 18; do
    t0=$(date +%s)
    out=$(VERIF_SEED=$s ./bin/vcheck run --prop C$i --tier $TIER 2>&1)
    rc=$?
    t1=$(date +%s)
    line=$(echo "$out" | grep -v "^KNOWN-FINDING\|^NOTE" | tail -1 | cut -c1-200)
    echo "seed=$s C$i rc=$rc $((t1-t0))s $line"
  done
done
